"""Generator of valid C99 translation units that stress declarations, initialisers and statement nesting (C28).

`programs(cfg)` is a Hypothesis strategy returning {"src": text, "features": sorted list of feature tags}.
The text is valid C by construction as far as the generator can tell; the caller establishes validity with
`gcc -std=c99 -fsyntax-only -pedantic-errors` and discards the rest.  Behaviour does not matter (nothing is
executed): only constraints (types of operands, lvalues, constant initialisers at file scope, labels) are respected.

Feature tags name the constructs used, e.g. "init:out-of-range", "init:designated-array", "stmt:goto"; the caller
maps them to the supported / unsupported-but-valid streams.  cfg.avoid is a set of feature tags not to generate
(exclusion of open findings by construction); cfg.hits collects the tags that were avoided.
"""

from hypothesis import strategies as st

from . import cconst as cc

INT_TYPES = cc.INT_TYPES
FLT_TYPES = ["float", "double"]


class Cfg:
    def __init__(self, avoid=(), max_funcs=3, max_globals=8, max_depth=3, const_expr=None):
        self.avoid = frozenset(avoid)
        self.max_funcs = max_funcs
        self.max_globals = max_globals
        self.max_depth = max_depth
        self.const_expr = const_expr  # strategy factory (depth) -> constant expression tree, or None


class _G:
    """State of one program under construction."""

    def __init__(self, draw, cfg):
        self.draw = draw
        self.cfg = cfg
        self.feats = set()
        self.avoided = set()
        self.structs = {}  # tag -> [(field name, type, bit width | None)]
        self.opaque = []  # (kind, tag) of tags that are declared and never completed
        self.unions = {}
        self.enums = {}  # tag -> [names]
        self.enumerators = []
        self.enum_values = {}
        self.globals = []  # (name, type)
        self.funcs = []  # (name, ret type, [param types])
        self.n = 0
        self.lines = []

    # -- helpers --------------------------------------------------------------
    def i(self, lo, hi):
        return self.draw(st.integers(lo, hi))

    def pick(self, xs):
        return self.draw(st.sampled_from(list(xs)))

    def chance(self, num, den=10):
        return self.draw(st.integers(0, den - 1)) >= den - num  # the simplest draw (0) means "no"

    def name(self, p):
        self.n += 1
        return "%s%d" % (p, self.n)

    def feat(self, tag):
        self.feats.add(tag)

    def ok(self, tag):
        """Use the construct `tag` unless it is to be avoided."""
        if tag in self.cfg.avoid:
            self.avoided.add(tag)
            return False
        self.feats.add(tag)
        return True

    def want(self, tag, num=5, den=10):
        """Draw whether to use the construct `tag`; honours cfg.avoid."""
        if not self.chance(num, den):
            return False
        if tag in self.cfg.avoid:
            self.avoided.add(tag)
            return False
        self.feats.add(tag)
        return True

    # -- types ----------------------------------------------------------------
    def int_type(self):
        return ("int", self.pick(INT_TYPES))

    def scalar_type(self):
        k = self.i(0, 9)
        if k < 6:
            return self.int_type()
        if k < 8:
            self.feat("type:float")
            return ("flt", self.pick(FLT_TYPES))
        if self.enums and k == 8:
            self.feat("type:enum-variable")
            return ("enum", self.pick(sorted(self.enums)))
        return ("ptr", self.pick([("int", "int"), ("int", "char"), ("int", "unsigned char"), ("int", "long"), ("flt", "double")]))

    def object_type(self, depth=2):
        k = self.i(0, 11)
        if k < 5 or depth <= 0:
            return self.scalar_type()
        if k < 8:
            n = self.i(1, 4)
            return ("arr", self.object_type(depth - 1), n)
        if k < 10 and self.structs:
            return ("struct", self.pick(sorted(self.structs)))
        if k < 11 and self.unions:
            return ("union", self.pick(sorted(self.unions)))
        return self.scalar_type()

    def decl(self, t, name):
        """C declarator text for an object `name` of type t."""
        k = t[0]
        if k == "int" or k == "flt":
            return "%s %s" % (t[1], name)
        if k == "enum":
            return "enum %s %s" % (t[1], name)
        if k == "struct" or k == "union":
            return "%s %s %s" % (k, t[1], name)
        if k == "ostruct" or k == "ounion":  # tag that is declared but never completed
            return "%s %s %s" % (k[1:], t[1], name)
        if k == "ptr":
            if t[1][0] in ("arr", "fn"):
                return self.decl(t[1], "(*%s)" % name)
            return self.decl(t[1], "*" + name)
        if k == "arr":
            return self.decl(t[1], "%s[%s]" % (name, "" if t[2] is None else t[2]))
        if k == "fn":
            return self.decl(t[1], "%s(%s)" % (name, ", ".join(self.decl(p, "") for p in t[2]) or "void"))
        raise ValueError(t)

    # -- type definitions -----------------------------------------------------
    def gen_typedefs(self):
        for _ in range(self.i(0, 2)):
            tag = self.name("E")
            names = [self.name("K") for _ in range(self.i(1, 4))]
            parts = []
            cur = -1
            for nm in names:
                if self.chance(4) or cur == 2**31 - 1:
                    cur = self.pick([0, 1, -1, 5, 100, -128, 65536, 2**31 - 1])
                    parts.append("%s = %d" % (nm, cur))
                    self.feat("enum:explicit-value")
                    if cur < 0:
                        self.feat("enum:negative-value")
                else:
                    cur += 1
                    parts.append(nm)
                self.enum_values[nm] = cur
            self.enums[tag] = names
            self.enumerators += names
            self.lines.append("enum %s { %s };" % (tag, ", ".join(parts)))
        for _ in range(self.i(0, 3)):
            union = self.chance(2)
            tag = self.name("U" if union else "S")
            fields = []
            for _ in range(self.i(1, 4)):
                fn = self.name("m")
                if not union and self.want("bitfield", 2):
                    bt = self.pick(["int", "unsigned int", "unsigned", "signed int"])
                    w = self.pick([1, 2, 3, 7, 8, 9, 15, 16, 17, 31, 32])
                    if bt in ("int", "signed int"):
                        self.feat("bitfield:signed")
                    fields.append((fn, ("int", bt), w))
                    if self.want("bitfield:unnamed", 1):
                        fields.append((None, ("int", "unsigned int"), self.pick([0, 3])))
                else:
                    fields.append((fn, self.object_type(1), None))
            body = []
            for fn, ft, w in fields:
                if w is None:
                    body.append(self.decl(ft, fn) + ";")
                else:
                    body.append("%s %s : %d;" % (ft[1], fn or "", w))
            (self.unions if union else self.structs)[tag] = [f for f in fields if f[0] is not None]
            self.feat("type:union" if union else "type:struct")
            self.lines.append("%s %s { %s };" % ("union" if union else "struct", tag, " ".join(body)))

    # -- constants ------------------------------------------------------------
    def int_const(self, t):
        """Constant expression text for an initialiser of integer type t[1]."""
        tn = {"unsigned": "unsigned int", "signed int": "int"}.get(t[1], t[1])
        k = self.i(0, 9)
        if k < 3:
            return str(self.pick([0, 1, 2, 7, 42, 100]))
        if k < 6:
            v = self.pick([cc.tmax(tn) + 1, cc.tmax(tn) + 2, 2 * cc.tmax(tn) + 3, 300, 70000, 2**32 + 5, cc.tmin(tn) - 1,
                           -1, -2, -128, -129, -32768, -32769, 127, 255])  # fmt: skip
            v = max(min(v, 2**64 - 1), -(2**63) + 1)
            if not cc.fits(v, tn):
                if "init:out-of-range" in self.cfg.avoid:
                    self.avoided.add("init:out-of-range")
                    return "1"
                self.feat("init:out-of-range")
            if v < 0:
                self.feat("init:negative-constant")
                return "-%d" % -v
            return "%dull" % v if v > 2**63 - 1 else "%d" % v
        if k < 7 and self.enumerators:
            en = self.pick(self.enumerators)
            if not cc.fits(self.enum_values[en], tn):
                if "init:out-of-range" in self.cfg.avoid:
                    self.avoided.add("init:out-of-range")
                    return "3"
                self.feat("init:out-of-range")
            self.feat("init:enumerator")
            return en
        if k < 8:
            self.feat("init:char-constant")
            return self.pick(["'a'", "'Z'", "'0'", "'\\n'", "'\\0'", "'\\2'"])
        if self.cfg.const_expr is not None:
            if self.cfg.const_expr == "supported":
                e = self.small_constexpr(self.i(1, 3))
            else:
                e = self.draw(self.cfg.const_expr(self.i(1, 2)))
            try:
                v = cc.ref_eval(e, self.enum_values)[1]
                # the value an evaluator without conversions (and with floor division) would pack
                nv = cc.model_eval(e, self.enum_values, frozenset(["noconv"]))[1]
                nf = cc.model_eval(e, self.enum_values, frozenset(["noconv", "floor"]))[1]
            except (cc.UB, cc.ModelExc):
                v = nv = nf = 0
            if not (cc.fits(v, tn) and cc.fits(nv, tn) and cc.fits(nf, tn)):
                if "init:out-of-range" in self.cfg.avoid:
                    self.avoided.add("init:out-of-range")
                    return "2"
                self.feat("init:out-of-range")
            for f in cc.features(e):
                self.feat("constexpr:" + f)
            return cc.render(e, self.chance(3))
        return "%d" % self.i(0, 1000)

    def small_constexpr(self, depth):
        """Constant expression tree over the operators ppci's own sources use in constant expressions."""
        k = self.i(0, 9) if depth > 0 else self.i(0, 2)
        if k < 2:
            v = self.pick([0, 1, 2, 3, 7, 10, 100, 255, 256, 1000, 65535, 65536, 2**31 - 1])
            return ["lit", self.pick(["%d", "%d", "0x%x", "%dL", "%du", "%dUL", "%dLL"]) % v]
        if k < 3:
            if self.enumerators and self.chance(5):
                if "cx:enum" in self.cfg.avoid:
                    self.avoided.add("cx:enum")
                else:
                    return ["enum", self.pick(self.enumerators)]
            return ["sizeoft", self.pick(["int", "char", "long", "short", "long long", "char *", "unsigned long", "int[3]"])]
        if k < 8:
            a, b = self.small_constexpr(depth - 1), self.small_constexpr(depth - 1)
            for op in [self.pick(["+", "-", "*", "/", "&", "^"]), "&"]:
                e = ["bin", op, a, b]
                try:
                    cc.ref_eval(e, self.enum_values)
                    return e
                except cc.UB:
                    pass
            return a
        if k < 9:
            e = ["un", "-", self.small_constexpr(depth - 1)]
            try:
                cc.ref_eval(e, self.enum_values)
                return e
            except cc.UB:
                return e[2]
        return ["sizeofe", self.small_constexpr(depth - 1)]

    def flt_const(self):
        self.feat("init:float")
        if self.want("literal:float-suffix", 1):
            return self.pick(["2.5f", "1.0F", "3.0L"])
        return self.pick(["0.0", "1.5", "-2.25", "3", "1e3", "-1", "(double)3", "1.0 / 4", "(float)1 + 2", "0x10", "'a'"])

    # -- initialisers -----------------------------------------------------------
    def initializer(self, t, glob, depth=0):
        """-> text of an initialiser for type t (file scope: constant)."""
        k = t[0]
        if k == "int":
            s = self.int_const(t)
            if self.want("init:braced-scalar", 1, 20):
                return "{ %s }" % s
            return s
        if k == "flt":
            return self.flt_const()
        if k == "enum":
            if self.chance(5):
                return self.pick(self.enums[t[1]])
            return str(self.i(0, 3))
        if k == "ptr":
            return self.ptr_const(t, glob)
        if k == "arr":
            return self.array_init(t, glob, depth)
        if k == "struct":
            return self.struct_init(t, glob, depth)
        if k == "union":
            fields = self.unions[t[1]]
            if self.want("init:union-designated", 3):
                fn, ft, _ = self.pick(fields)
                return "{ .%s = %s }" % (fn, self.initializer(ft, glob, depth + 1))
            self.feat("init:union")
            return "{ %s }" % self.initializer(fields[0][1], glob, depth + 1)
        raise ValueError(t)

    def ptr_const(self, t, glob):
        target = t[1]
        k = self.i(0, 9)
        cands = [g for g in self.globals if g[1] == target]
        arrs = [g for g in self.globals if g[1][0] == "arr" and g[1][1] == target]
        if k < 2:
            return self.pick(["0", "(void *)0", "(%s)0" % self.decl(t, "")])
        if k < 4 and self.ok("init:int-to-pointer-cast"):
            # integer constant (expression) cast to a pointer: in range, negative, >= 2^63 (the value is not a construct)
            v = self.pick(["0x1000", "0x20000000", "4096 + 8", "1", "-1", "-2", "-4096", "0xFFFFFFFFFFFFFFFFULL", "0x8000000000000000UL",
                           "18446744073709551615ull", "-1L", "-(1 << 20)", "0x7fffffffffffffffL", "sizeof(int) * 1024", "~0UL", "0xdeadbeefu"])  # fmt: skip
            if v.startswith("~") and not self.ok("constexpr:un~"):
                v = "-1"
            return "(%s)%s" % (self.pick([self.decl(t, "").strip(), "void *"]), v if v[0] not in "-~" and " " not in v else "(%s)" % v)
        if k < 5 and cands:
            self.feat("init:address-of-global")
            return "&" + self.pick(cands)[0]
        if k < 8 and arrs:
            a = self.pick(arrs)
            kind = self.i(0, 2)
            if kind == 0 and self.ok("init:array-decay"):
                return a[0]
            idx = self.i(0, a[1][2] - 1)
            if kind == 1 and self.want("init:address-of-element", 10):
                return "&%s[%d]" % (a[0], idx)
            if self.want("init:array-plus-offset", 10):
                return "%s + %d" % (a[0], idx)
            return "0"
        if target == ("int", "char") and self.want("init:string-pointer", 8):
            return self.string_lit(20)
        return "0"

    def string_lit(self, maxlen):
        n = self.i(0, min(maxlen, 6))
        chars = [self.pick(["a", "b", "Z", "0", " ", "\\n", "\\t", "\\\\", "\\\"", "\\0", "\\x41\" \"", "\\101", "%", "'"]) for _ in range(n)]
        return '"%s"' % "".join(chars)

    def array_init(self, t, glob, depth):
        et, n = t[1], t[2]
        if et in (("int", "char"), ("int", "unsigned char"), ("int", "signed char")) and self.chance(5) and (depth == 0 or self.ok("init:string-row")):
            k = self.i(0, n)
            body = "".join(self.pick(["a", "b", "Z", "0", " ", "\\n", "\\0", "\\101"]) for _ in range(k))
            if k == n:
                self.feat("init:string-exact-fit")
            self.feat("init:string-array")
            s = '"%s"' % body
            if self.want("init:braced-string", 1):
                s = "{ %s }" % s
            return s
        if self.want("init:designated-array", 3):
            items = []
            for idx in sorted(set(self.i(0, n - 1) for _ in range(self.i(1, n)))):
                items.append("[%d] = %s" % (idx, self.initializer(et, glob, depth + 1)))
            if self.chance(3) and int(items[-1][1 : items[-1].index("]")]) < n - 1:
                items.append(self.initializer(et, glob, depth + 1))  # continues after the designated element
            return "{ %s }" % ", ".join(items)
        cnt = self.pick([n, n, max(1, n - 1), 1])
        if cnt < n and not self.ok("init:partial-array"):
            cnt = n
        if et[0] in ("arr", "struct") and self.want("init:brace-elision", 2) and self._scalar_leaves(et) is not None:
            leaves = self._scalar_leaves(et)
            flat = []
            for _ in range(cnt):
                flat += [self.initializer(lt, glob, depth + 1) for lt in leaves]
            return "{ %s }" % ", ".join(flat)
        items = [self.initializer(et, glob, depth + 1) for _ in range(cnt)]
        if self.chance(2):
            items[-1] += ","  # trailing comma
            self.feat("init:trailing-comma")
        return "{ %s }" % ", ".join(items).replace(",,", ",")

    def _scalar_leaves(self, t):
        """Flattened scalar leaf types of an aggregate, or None if it contains unions/bit-fields/strings-unfriendly parts."""
        if t[0] in ("int", "flt"):
            return [t]
        if t[0] == "arr":
            sub = self._scalar_leaves(t[1])
            return None if sub is None else sub * t[2]
        if t[0] == "struct":
            out = []
            for fn, ft, w in self.structs[t[1]]:
                if w is not None:
                    return None
                sub = self._scalar_leaves(ft)
                if sub is None:
                    return None
                out += sub
            return out
        return None

    def struct_init(self, t, glob, depth):
        fields = self.structs[t[1]]
        if self.want("init:designated-struct", 3):
            chosen = [f for f in fields if self.chance(6)] or fields[:1]
            if self.chance(3):
                chosen = chosen[::-1]
                self.feat("init:designated-out-of-order")
            items = []
            for fn, ft, w in chosen:
                if ft[0] == "arr" and self.want("init:nested-designator", 3):
                    items.append(".%s[%d] = %s" % (fn, self.i(0, ft[2] - 1), self.initializer(ft[1], glob, depth + 1)))
                elif ft[0] == "struct" and self.want("init:nested-designator", 3):
                    sf = self.pick(self.structs[ft[1]])
                    items.append(".%s.%s = %s" % (fn, sf[0], self.initializer(sf[1], glob, depth + 1)))
                else:
                    items.append(".%s = %s" % (fn, self.initializer(ft, glob, depth + 1)))
            return "{ %s }" % ", ".join(items)
        cnt = self.pick([len(fields), len(fields), max(1, len(fields) - 1), 1])
        if cnt < len(fields) and not self.ok("init:partial-struct"):
            cnt = len(fields)
        items = [self.initializer(ft, glob, depth + 1) for fn, ft, w in fields[:cnt]]
        if any(w is not None for _, _, w in fields[:cnt]):
            self.feat("init:bitfield")
        if any(ft[0] in ("arr", "struct", "union") for _, ft, _ in fields[:cnt]):
            self.feat("init:nested-aggregate")
        return "{ %s }" % ", ".join(items)

    # -- globals ------------------------------------------------------------------
    def gen_globals(self):
        for _ in range(self.i(1, self.cfg.max_globals)):
            t = self.object_type()
            nm = self.name("g")
            sc = ""
            if self.chance(2):
                sc = "static "
                self.feat("decl:static-global")
            q = ""
            if self.chance(1):
                q = self.pick(["const ", "volatile "])
                self.feat("decl:qualifier")
            if t[0] == "arr" and t[1][0] != "arr" and self.chance(3):
                # size from the initialiser
                init = self.initializer(t, True)
                self.feat("decl:array-size-from-initializer")
                self.lines.append("%s%s%s = %s;" % (sc, q, self.decl(("arr", t[1], None), nm), init))
            elif self.chance(8):
                self.lines.append("%s%s%s = %s;" % (sc, q, self.decl(t, nm), self.initializer(t, True)))
            else:
                self.lines.append("%s%s%s;" % (sc, q, self.decl(t, nm)))
            self.globals.append((nm, t if not q.startswith("const") else ("const", t)))

    # -- expressions (block scope) -----------------------------------------------
    def int_expr(self, env, depth):
        """An expression of integer type (any rank)."""
        ints = [n for n, t in env if t[0] == "int"]
        k = self.i(0, 19) if depth > 0 else self.i(0, 3)
        if k < 2:
            return self.pick(["0", "1", "2", "7", "255", "0x7fffffff", "1u", "3L", "'a'", "100000"])
        if k < 4:
            return self.pick(ints) if ints else "5"
        if k < 9:
            op = self.pick(["+", "-", "*", "/", "%", "<<", ">>", "&", "|", "^", "<", ">", "<=", ">=", "==", "!=", "&&", "||"])
            return "(%s %s %s)" % (self.int_expr(env, depth - 1), op, self.int_expr(env, depth - 1))
        if k < 11:
            return "%s(%s)" % (self.pick(["-", "~", "!", "+"]), self.int_expr(env, depth - 1))
        if k < 12:
            self.feat("expr:ternary")
            return "(%s ? %s : %s)" % (self.int_expr(env, depth - 1), self.int_expr(env, depth - 1), self.int_expr(env, depth - 1))
        if k < 13:
            return "(%s)%s" % (self.pick(INT_TYPES), self.int_expr(env, depth - 1))
        if k < 14:
            self.feat("expr:sizeof")
            return self.pick(["sizeof(int)", "sizeof(%s)" % self.int_expr(env, depth - 1), "sizeof %s" % (self.pick(ints) if ints else "1")])
        if k < 15:
            arrs = [(n, t) for n, t in env if t[0] == "arr" and t[1][0] == "int"]
            if arrs:
                n, t = self.pick(arrs)
                return "%s[%d]" % (n, self.i(0, t[2] - 1)) if t[2] else "%s[0]" % n
        if k < 16:
            ss = [(n, t) for n, t in env if t[0] == "struct"]
            if ss:
                n, t = self.pick(ss)
                fl = [f for f in self.structs[t[1]] if f[1][0] == "int"]
                if fl:
                    f = self.pick(fl)
                    self.feat("expr:member")
                    if f[2] is not None:
                        self.feat("expr:bitfield-access")
                    return "%s.%s" % (n, f[0])
        ptrs = [(n, t) for n, t in env if t[0] == "ptr" and t[1][0] != "fn"]
        if k >= 15 and ptrs and self.chance(3):
            n, t = self.pick(ptrs)
            self.feat("expr:pointer-param")
            if t[1][0] == "int" and self.chance(5):
                return "(%s ? *%s : 0)" % (n, n)  # dereferenced only behind a null test (the units are never run anyway)
            if t[1][0] == "struct":
                fl = [f for f in self.structs[t[1][1]] if f[1][0] == "int"]
                if fl and self.chance(6):
                    return "(%s ? %s->%s : 1)" % (n, n, self.pick(fl)[0])
            return "(%s %s 0)" % (n, self.pick(["==", "!="]))
        if k < 17:
            fl = [f for f in self.funcs if f[1][0] == "int"]
            if fl:
                f = self.pick(fl)
                self.feat("expr:call")
                return "%s(%s)" % (f[0], ", ".join(self.arg_expr(env, p, depth - 1) for p in f[2]))
        if k < 18 and ints:
            self.feat("expr:assign-in-expression")
            return "(%s %s %s)" % (self.pick(ints), self.pick(["=", "+=", "-=", "*=", "&=", "|=", "^=", "<<=", ">>="]), self.int_expr(env, depth - 1))
        if k < 19 and ints:
            self.feat("expr:incdec")
            v = self.pick(ints)
            return self.pick(["%s++", "%s--", "++%s", "--%s"]) % v
        self.feat("expr:comma")
        return "(%s, %s)" % (self.int_expr(env, depth - 1), self.int_expr(env, depth - 1))

    def arg_expr(self, env, t, depth):
        if t[0] == "int":
            return self.int_expr(env, max(depth, 0))
        if t[0] == "flt":
            return self.pick(["1.5", "2", "(double)3"])
        if t[0] == "enum":
            return self.pick(self.enums[t[1]])
        return "0"

    def lvalue(self, env):
        ints = [n for n, t in env if t[0] == "int"]
        return self.pick(ints) if ints else None

    # -- statements ----------------------------------------------------------------
    def block(self, env, depth, ctx, ret):
        """-> list of lines.  ctx: set containing 'loop' / 'switch' when break/continue/case are allowed."""
        env = list(env)
        out = []
        for _ in range(self.i(1, 4)):
            out += self.statement(env, depth, ctx, ret)
        return out

    def statement(self, env, depth, ctx, ret):
        k = self.i(0, 21) if depth > 0 else self.i(0, 7)
        lv = self.lvalue(env)
        if k < 3 and lv:
            return ["%s %s %s;" % (lv, self.pick(["=", "=", "+=", "-=", "*=", "/=", "%=", "&=", "|=", "^=", "<<=", ">>="]), self.int_expr(env, 2))]
        if k < 5:
            return self.local_decl(env)
        if k < 6:
            return ["%s;" % self.int_expr(env, 2)]
        if k < 7:
            return [self.return_stmt(env, ret)]
        if k < 8:
            self.feat("stmt:empty")
            return [";"]
        d = depth - 1
        if k < 10:
            body = self.block(env, d, ctx, ret)
            if self.chance(5):
                return ["if (%s) {" % self.int_expr(env, 2)] + body + ["} else {"] + self.block(env, d, ctx, ret) + ["}"]
            return ["if (%s) {" % self.int_expr(env, 2)] + body + ["}"]
        if k < 12:
            self.feat("stmt:while")
            return ["while (%s) {" % self.int_expr(env, 1)] + self.block(env, d, ctx | {"loop"}, ret) + ["}"]
        if k < 13:
            self.feat("stmt:do-while")
            return ["do {"] + self.block(env, d, ctx | {"loop"}, ret) + ["} while (%s);" % self.int_expr(env, 1)]
        if k < 15:
            self.feat("stmt:for")
            if self.want("stmt:for-declaration", 4):
                v = self.name("i")
                inner = env + [(v, ("int", "int"))]
                head = "for (int %s = 0; %s < %d; %s++) {" % (v, v, self.i(0, 5), v)
                return [head] + self.block(inner, d, ctx | {"loop"}, ret) + ["}"]
            if self.chance(2):
                self.feat("stmt:for-empty-clauses")
                return ["for (;;) {"] + self.block(env, d, ctx | {"loop"}, ret) + ["break;", "}"]
            a = self.int_expr(env, 1)
            if self.chance(3) and lv:
                self.feat("expr:comma")
                a = "%s = 0, %s" % (lv, a)
            return ["for (%s; %s; %s) {" % (a, self.int_expr(env, 1), self.int_expr(env, 1))] + self.block(env, d, ctx | {"loop"}, ret) + ["}"]
        if k < 17:
            return self.switch_stmt(env, d, ctx, ret)
        if k < 18 and "loop" in ctx:
            self.feat("stmt:continue")
            return ["continue;"]
        if k < 19 and ("loop" in ctx or "switch" in ctx):
            return ["break;"]
        if k < 20:
            self.feat("stmt:nested-block")
            return ["{"] + self.block(env, d, ctx, ret) + ["}"]
        if k < 21 and self.want("stmt:goto", 10):
            lab = self.name("L")
            if self.chance(5):
                # forward
                return ["goto %s;" % lab] + self.block(env, d, ctx, ret) + ["%s: ;" % lab]
            self.feat("stmt:goto-backward")
            c = self.name("c")
            return ["{ int %s = 0;" % c, "%s: %s++;" % (lab, c), "if (%s < 3) goto %s;" % (c, lab), "}"]
        return ["%s;" % self.int_expr(env, 2)]

    def return_stmt(self, env, ret):
        if ret is None:
            return "return;"
        if ret[0] == "int":
            return "return %s;" % self.int_expr(env, 2)
        if ret[0] == "flt":
            return "return %s;" % self.pick(["1.5", "0", "(double)2"])
        same = [n for n, t in env if t == ret]
        if ret[0] == "ptr" and same and self.chance(6):
            return "return %s;" % self.pick(same)
        return "return 0;"

    def switch_stmt(self, env, depth, ctx, ret):
        self.feat("stmt:switch")
        ctl = self.int_expr(env, 1)
        if self.chance(3):
            if self.want("stmt:switch-long", 4):
                ctl = "(%s)(%s)" % (self.pick(["long", "unsigned long", "long long"]), ctl)
            else:
                ctl = "(%s)(%s)" % (self.pick(["char", "unsigned char", "short"]), ctl)
                self.feat("stmt:switch-non-int")
        out = ["switch (%s) {" % ctl]
        vals = set()
        n = self.i(0, 4)
        default_at = self.i(0, n) if self.chance(7) else None
        if default_at is not None and default_at < n and not self.ok("stmt:default-not-last"):
            default_at = n
        if n == 0 and default_at is None and not self.ok("stmt:empty-switch"):
            default_at = 0
        for j in range(n + 1):
            if j == default_at:
                out.append("default: ;")
            if j < n:
                v = self.pick([0, 1, 2, 3, 5, 10, 100, -1, 255, 65536])
                if v in vals:
                    continue
                vals.add(v)
                lab = "%d" % v if v >= 0 else "-%d" % -v
                if self.want("stmt:case-constant-expression", 2):
                    lab = self.pick(["%s + 0", "(int)%s", "%s * 1", "%s | 0"]) % (lab if v >= 0 else "(%s)" % lab)
                out.append("case %s: ;" % lab)
            body = self.block(env, depth, ctx | {"switch"}, ret)
            if self.want("stmt:case-in-nested-block", 1) and j < n:
                w = self.pick([7, 8, 9, 11, 12, 13])
                if w not in vals:
                    vals.add(w)
                    body = ["if (%s) {" % self.int_expr(env, 1), "case %d: ;" % w] + body + ["}"]
            out += body
            if self.chance(7):
                out.append("break;")
            else:
                self.feat("stmt:fallthrough")
        out.append("}")
        return out

    def local_decl(self, env):
        k = self.i(0, 9)
        nm = self.name("v")
        if k < 5:
            t = self.int_type()
            env.append((nm, t))
            return ["%s = %s;" % (self.decl(t, nm), self.int_expr(env[:-1], 2))]
        if k < 6:
            t = ("flt", self.pick(FLT_TYPES))
            env.append((nm, t))
            self.feat("type:float")
            return ["%s = %s;" % (self.decl(t, nm), self.flt_const())]
        if k < 8 and self.want("local:aggregate-initializer", 10):
            t = self.object_type(1)
            if t[0] in ("arr", "struct", "union"):
                env.append((nm, t))
                return ["%s = %s;" % (self.decl(t, nm), self.initializer(t, True))]
            env.append((nm, t))
            return ["%s = %s;" % (self.decl(t, nm), self.initializer(t, True))]
        if k < 9 and self.want("local:static", 10):
            t = self.object_type(1)
            env.append((nm, t))
            return ["static %s = %s;" % (self.decl(t, nm), self.initializer(t, True))]
        t = self.int_type()
        env.append((nm, t))
        self.feat("local:uninitialised")
        return ["%s;" % self.decl(t, nm), "%s = %s;" % (nm, self.int_expr(env[:-1], 1))]

    # -- functions ------------------------------------------------------------------
    def gen_functions(self):
        for _ in range(self.i(1, self.cfg.max_funcs)):
            nm = self.name("f")
            ret = self.pick([("int", "int"), ("int", "int"), self.int_type(), ("flt", "double"), None])
            params = [self.param_type() for _ in range(self.i(0, 3))]
            if ret is not None and self.want("fn:pointer-return", 1):
                ret = self.pick([p for p in params if p[0] == "ptr"] or [("ptr", ("int", "int"))])
            pnames = [self.name("p") for _ in params]
            env = [g for g in self.globals] + list(zip(pnames, params))
            sc = ""
            if self.chance(2):
                sc = "static "
                self.feat("decl:static-function")
            head = "%s%s(%s) {" % (sc, "void " + nm if ret is None else self.decl(ret, nm), ", ".join(self.decl(p, n) for p, n in zip(params, pnames)) or "void")
            body = self.block(env, self.cfg.max_depth, frozenset(), ret)
            tail = [self.return_stmt(env, ret)] if ret is not None else []
            self.lines += [head] + ["  " + l for l in body + tail] + ["}"]
            self.funcs.append((nm, ret if ret is not None else ("void",), params))
            if self.want("fptr:global", 3):
                fp = self.name("fp")
                ft = ("ptr", ("fn", ret if ret is not None else ("int", "void"), params))
                self.lines.append("%s = %s%s;" % (self._fdecl(ret, params, "(*%s)" % fp), self.pick(["", "&"]), nm))
                if self.want("fptr:array", 3):
                    fa = self.name("fa")
                    self.lines.append("%s = { %s, %s };" % (self._fdecl(ret, params, "(*%s[2])" % fa), nm, nm))
                if ret is not None and ret[0] == "int" and self.want("fptr:call", 8):
                    c = self.name("f")
                    args = ", ".join(self.arg_expr([], p, 0) for p in params)
                    self.lines.append("int %s(void) { return (int)%s(%s) + (int)(*%s)(%s); }" % (c, fp, args, fp, args))
                    self.funcs.append((c, ("int", "int"), []))
                if self.want("fptr:struct-member", 2):
                    sn = self.name("SF")
                    self.lines.append("struct %s { int tag; %s; } %s = { 1, %s };" % (sn, self._fdecl(ret, params, "(*cb)"), self.name("g"), nm))

    def _fdecl(self, ret, params, inner):
        args = ", ".join(self.decl(p, "") for p in params) or "void"
        if ret is None:
            return "void %s(%s)" % (inner, args)
        return self.decl(ret, "%s(%s)" % (inner, args))

    def param_type(self):
        """Parameter types: mostly scalars; sometimes a pointer to a scalar, to a complete struct / union, or to a tag that
        is only declared ('struct ctx;', an opaque handle) - valid C as long as the pointee is never needed."""
        k = self.i(0, 19)
        if k < 13:
            return self.pick([("int", "int"), self.int_type(), ("flt", "double")])
        if k < 15 and self.ok("param:pointer"):
            self.feat("param:pointer")
            return ("ptr", self.pick([("int", "int"), ("int", "char"), ("int", "unsigned short"), ("flt", "double")]))
        if k < 17 and (self.structs or self.unions) and self.ok("param:struct-pointer"):
            self.feat("param:struct-pointer")
            kind = "struct" if self.structs and (not self.unions or self.chance(5)) else "union"
            return ("ptr", (kind, self.pick(sorted(self.structs if kind == "struct" else self.unions))))
        if k < 19 and self.ok("param:opaque-pointer"):
            self.feat("param:opaque-pointer")
            if not self.opaque or self.chance(3):
                kind = self.pick(["ostruct", "ostruct", "ounion"])
                tag = self.name("Op")
                self.opaque.append((kind, tag))
                self.lines.append("%s %s;" % (kind[1:], tag))
            return ("ptr", self.pick(self.opaque))
        return ("int", "int")


@st.composite
def programs(draw, cfg):
    g = _G(draw, cfg)
    g.gen_typedefs()
    g.gen_globals()
    g.gen_functions()
    return {"src": "\n".join(g.lines) + "\n", "features": sorted(g.feats), "avoided": sorted(g.avoided)}
