"""ARMv7-A A32 (ARM state, little endian, user mode) emulator written from the ARM Architecture
Reference Manual ARMv7-A/R (DDI 0406C): chapters A5 (instruction set encoding), A8 (instruction
descriptions and their pseudo-code) and A2.2.1 / A8.4 (shifts, AddWithCarry, ARMExpandImm_C);
independent of ppci's encoders.

    m = Machine(step_limit=2_000_000)
    m.map(addr, size[, data])            map a zero-filled (or initialised) region of flat byte memory
    m.load_object(obj)                   map every image of a ppci-linked ObjectFile at its address
    m.load(image, base)                  map an image laid out by link_elf()
    m.read / m.write / m.read_u32 / m.write_u32 / m.load_bytes
    m.regs[0..15]                        r0..r12, sp, lr; regs[15] is scratch (reads of pc give address + 8)
    m.n, m.z, m.c, m.v, m.q, m.ge        APSR flags; m.apsr() / m.set_apsr(v)
    m.call(entry, args=(), convention="aapcs" | "ppci") -> r0
                                         aapcs: r0-r3, then 4-byte stack slots, ("i64", v) in an even/odd pair or an
                                         8-aligned stack slot; ppci: r1-r4 (ppci's ArmArch.determine_arg_locations), result
                                         r0.  lr = SENTINEL, sp = top of the stack region, runs until pc == SENTINEL.
    m.run(pc, until=SENTINEL)            the bare fetch/execute loop; m.step(pc) executes one instruction
    m.steps, m.executed                  instruction count / set of executed encodings
    m.hooks[addr] = f(machine)           host function: when pc reaches addr, f runs and execution resumes at lr

Exceptions (subclasses of EmuError): StepLimit, IllegalInstruction (UNDEFINED encoding), Unpredictable (an encoding
or operand combination the manual calls UNPREDICTABLE: nothing is chosen for it), Unsupported (a valid encoding
outside this emulator: VFP/NEON, coprocessor, exclusive access, saturating/parallel arithmetic, privileged and
exception-return forms, a switch to Thumb state), MemoryFault, AlignmentFault (LDM/STM/LDRD/STRD at an address
that is not word aligned; single LDR/STR/LDRH/STRH may be unaligned, SCTLR.A = 0, and are counted in m.misaligned),
Trap (svc / bkpt / udf).

Covered: data-processing (immediate with modified-immediate rotation, register, register-shifted register; all 16
opcodes, S variants, shifter carry-out), movw/movt, mul/mla/mls/umull/umlal/smull/smlal/umaal, the halfword
multiplies smulxy/smlaxy/smulwy/smlawy/smlalxy, smmul/smmla/smmls, sdiv/udiv, clz/rev/rev16/revsh/rbit,
sxtb/sxth/uxtb/uxth (+ab/ah, rotation), ubfx/sbfx/bfi/bfc, ssat/usat, ldr/str/ldrb/strb (immediate, literal,
scaled register offset; offset, pre- and post-indexed), ldrh/strh/ldrsb/ldrsh/ldrd/strd (immediate and register),
ldm/stm (ia/ib/da/db, writeback; push/pop), b/bl/bx/blx register, mrs/msr (APSR), nop and the other hints, barriers
and pld (no effect), conditional execution of all of them.  VFP and NEON are NOT modelled (Unsupported).

Self-validation, independent of ppci (selfcheck(level), cached in /verif/.build):
  (a) decode: `disasm(word)` renders an instruction the way `llvm-mc-14 --disassemble -triple=armv7a` prints it (after
      light normalisation: white space, `#bits, #rot` modified immediates folded to their value); compared for every
      encoding the corpus below executes and for a deterministic sample of words biased to the modelled classes.
      What this decoder calls UNDEFINED must be invalid for llvm-mc too.
  (b) semantics: fixed and generated C functions compiled with `clang --target=armv7a-none-eabi -marm -O1
      -ffreestanding -mfloat-abi=soft -c` (and once more with -march=armv7ve: sdiv/udiv), laid out by the small
      static linker in this file (ELF32 REL relocations R_ARM_ABS32/REL32/CALL/JUMP24/MOVW_ABS_NC/MOVT_ABS/PREL31;
      there is no ARM linker in the image; the __aeabi_* run-time helpers are host hooks) must return what the same
      source returns natively (gcc, x86-64) for boundary and random arguments;
  (c) ARM ARM hand vectors, assembled by llvm-mc, for what C cannot pin down: NZCV after adds/subs/adcs/sbcs/rscs/
      cmn, shifter carry-out of every shift type (immediate and register amounts 0, 1, 31, 32, 33, 255), rotated
      modified immediates and their carry, rrx, conditional execution of all 14 conditions, sdiv/udiv corner cases,
      pc reads (+8), writeback forms, ldm/stm order, unaligned access, sign extension, saturation.
"""

import hashlib
import os
import re
import shutil
import struct
import subprocess
import tempfile

M32 = 0xFFFFFFFF
SENTINEL = 0xFFFFF000


class EmuError(Exception):
    pass


class StepLimit(EmuError):
    pass


class IllegalInstruction(EmuError):
    def __init__(self, pc, encoding, why="undefined"):
        super().__init__("%s instruction 0x%08x at pc=0x%08x" % (why, encoding, pc))
        self.pc = pc
        self.encoding = encoding


class Unpredictable(EmuError):
    def __init__(self, pc, encoding, why):
        super().__init__("UNPREDICTABLE (%s): 0x%08x at pc=0x%08x" % (why, encoding, pc))
        self.pc = pc
        self.encoding = encoding
        self.why = why


class Unsupported(EmuError):
    """A valid encoding (or state change) outside this emulator."""


class MemoryFault(EmuError):
    def __init__(self, addr, size, kind):
        super().__init__("%s of %d bytes at unmapped address 0x%08x" % (kind, size, addr & M32))
        self.addr = addr
        self.size = size
        self.kind = kind


class AlignmentFault(MemoryFault):
    def __init__(self, addr, size, kind):
        EmuError.__init__(self, "%s of %d bytes at misaligned address 0x%08x" % (kind, size, addr & M32))
        self.addr = addr
        self.size = size
        self.kind = kind


class Trap(EmuError):
    def __init__(self, pc, what):
        super().__init__("%s at pc=0x%08x" % (what, pc))
        self.pc = pc
        self.what = what


def _sx(v, bits):
    v &= (1 << bits) - 1
    return v - (1 << bits) if v >> (bits - 1) else v


def _s32(v):
    v &= M32
    return v - 0x100000000 if v & 0x80000000 else v


def _ror(v, n):
    n &= 31
    return ((v >> n) | (v << (32 - n))) & M32 if n else v & M32


# ---------------------------------------------------------------------------
# A2.2.1 / A8.4.3: shifts with carry out.  type 0 LSL, 1 LSR, 2 ASR, 3 ROR, 4 RRX; amount >= 0

LSL, LSR, ASR, ROR, RRX = range(5)
_SHIFT_NAMES = ("lsl", "lsr", "asr", "ror", "rrx")


def shift_c(value, typ, amount, carry_in):
    """Shift_C of the manual: (result, carry_out); amount == 0 leaves value and carry alone (RRX always shifts by 1)."""
    if typ == RRX:
        return ((carry_in << 31) | (value >> 1)) & M32, value & 1
    if amount == 0:
        return value, carry_in
    if typ == LSL:
        if amount < 32:
            return (value << amount) & M32, (value >> (32 - amount)) & 1
        return 0, (value & 1) if amount == 32 else 0
    if typ == LSR:
        if amount < 32:
            return value >> amount, (value >> (amount - 1)) & 1
        return 0, (value >> 31) if amount == 32 else 0
    if typ == ASR:
        s = value - 0x100000000 if value & 0x80000000 else value
        if amount < 32:
            return (s >> amount) & M32, (s >> (amount - 1)) & 1
        return (M32 if s < 0 else 0), (1 if s < 0 else 0)
    r = _ror(value, amount)
    return r, r >> 31


def decode_imm_shift(typ, imm5):
    """DecodeImmShift: (shift type, amount)."""
    if typ == 0:
        return LSL, imm5
    if typ == 1:
        return LSR, imm5 or 32
    if typ == 2:
        return ASR, imm5 or 32
    if imm5 == 0:
        return RRX, 1
    return ROR, imm5


def expand_imm_c(imm12, carry_in):
    """ARMExpandImm_C."""
    unrot = imm12 & 0xFF
    rot = 2 * (imm12 >> 8)
    if rot == 0:
        return unrot, carry_in
    r = _ror(unrot, rot)
    return r, r >> 31


def add_with_carry(x, y, c):
    """AddWithCarry: (result, carry, overflow)."""
    u = x + y + c
    r = u & M32
    s = _s32(x) + _s32(y) + c
    return r, u >> 32, 1 if _s32(r) != s else 0


def signed_sat_q(v, n):
    lim = 1 << (n - 1)
    if v > lim - 1:
        return lim - 1, 1
    if v < -lim:
        return -lim, 1
    return v, 0


def unsigned_sat_q(v, n):
    lim = (1 << n) - 1
    if v > lim:
        return lim, 1
    if v < 0:
        return 0, 1
    return v, 0


# ---------------------------------------------------------------------------
# decode: word -> (kind, cond, args, text)
#   kind K_BAD: args = ("undefined" | "unpredictable", reason); kind K_UNSUP: valid but outside this emulator.
#   text is llvm-mc's rendering (None where it is not modelled).

(K_BAD, K_UNSUP, K_DP, K_MOVW, K_MOVT, K_MUL, K_MLA, K_MLS, K_MULL, K_HMUL, K_MMUL, K_DIV, K_UNARY, K_EXT, K_BFX, K_BFI,
 K_SAT, K_LS, K_LSX, K_LSM, K_B, K_BX, K_MRS, K_MSR, K_NOP, K_TRAP) = range(26)  # fmt: skip

REG = ("r0", "r1", "r2", "r3", "r4", "r5", "r6", "r7", "r8", "r9", "r10", "r11", "r12", "sp", "lr", "pc")
COND = ("eq", "ne", "hs", "lo", "mi", "pl", "vs", "vc", "hi", "ls", "ge", "lt", "gt", "le", "")
DPNAMES = ("and", "eor", "sub", "rsb", "add", "adc", "sbc", "rsc", "tst", "teq", "cmp", "cmn", "orr", "mov", "bic", "mvn")
(AND, EOR, SUB, RSB, ADD, ADC, SBC, RSC, TST, TEQ, CMP, CMN, ORR, MOV, BIC, MVN) = range(16)


def _bad(why, reason="undefined"):
    return (K_BAD, 14, (reason, why), None)


def _unpred(why):
    return (K_BAD, 14, ("unpredictable", why), None)


def _unsup(cond, what, text=None):
    return (K_UNSUP, cond, (what,), text)


def _reglist(mask):
    return "{" + ", ".join(REG[i] for i in range(16) if (mask >> i) & 1) + "}"


def _shift_text(stype, amount):
    if stype == RRX:
        return ", rrx"
    if stype == LSL and amount == 0:
        return ""
    return ", %s #%d" % (_SHIFT_NAMES[stype], amount)


def _decode_dp(w, cond):
    imm = (w >> 25) & 1
    opc = (w >> 21) & 15
    s = (w >> 20) & 1
    rn = (w >> 16) & 15
    rd = (w >> 12) & 15
    c = COND[cond]
    name = DPNAMES[opc]
    test = 8 <= opc <= 11
    if test:
        if rd != 0:
            return _unpred("Rd field of a compare/test instruction should be zero")
    elif opc in (MOV, MVN) and rn != 0:
        return _unpred("Rn field of mov/mvn should be zero")
    sfx = ("s" if s and not test else "") + c
    if imm:
        imm12 = w & 0xFFF
        val = _ror(imm12 & 0xFF, 2 * (imm12 >> 8))
        op2 = "#%d" % _s32(val)
        mode, rm, stype, amt = 0, 0, 0, imm12
    elif (w >> 4) & 1 == 0:
        rm = w & 15
        stype, amt = decode_imm_shift((w >> 5) & 3, (w >> 7) & 31)
        op2 = REG[rm] + _shift_text(stype, amt)
        mode = 1
    else:
        if (w >> 7) & 1:
            raise AssertionError("not a data-processing encoding")
        rm = w & 15
        stype = (w >> 5) & 3
        amt = (w >> 8) & 15  # Rs
        if 15 in (rd, rn, rm, amt):
            return _unpred("pc in a register-shifted register form")
        op2 = "%s, %s %s" % (REG[rm], _SHIFT_NAMES[stype], REG[amt])
        mode = 2
    if rd == 15 and s and not test:
        return _unsup(cond, "exception return (S with Rd = pc)")
    if test:
        text = "%s%s %s, %s" % (name, c, REG[rn], op2)
    elif opc == MVN:
        text = "mvn%s %s, %s" % (sfx, REG[rd], op2)
    elif opc == MOV:
        if mode == 0:
            text = "mov%s %s, %s" % (sfx, REG[rd], op2)
        elif mode == 1:
            if stype == LSL and amt == 0:
                text = "mov%s %s, %s" % (sfx, REG[rd], REG[rm])
            elif stype == RRX:
                text = "rrx%s %s, %s" % (sfx, REG[rd], REG[rm])
            else:
                text = "%s%s %s, %s, #%d" % (_SHIFT_NAMES[stype], sfx, REG[rd], REG[rm], amt)
        else:
            text = "%s%s %s, %s, %s" % (_SHIFT_NAMES[stype], sfx, REG[rd], REG[rm], REG[amt])
    else:
        text = "%s%s %s, %s, %s" % (name, sfx, REG[rd], REG[rn], op2)
    return (K_DP, cond, (opc, s, rd, rn, mode, rm, stype, amt), text)


def _decode_misc(w, cond):
    """A5.2.12 miscellaneous instructions (op1 = 10xx0, op2 = 0xxx) and A5.2.7 halfword multiplies (op2 = 1xx0)."""
    c = COND[cond]
    op = (w >> 21) & 3
    if (w >> 7) & 1:  # halfword multiply and multiply accumulate
        rd, ra, rm, rn = (w >> 16) & 15, (w >> 12) & 15, (w >> 8) & 15, w & 15
        mflag, nflag = (w >> 6) & 1, (w >> 5) & 1
        if 15 in (rd, rm, rn):
            return _unpred("pc in a halfword multiply")
        x, y = "bt"[nflag], "bt"[mflag]
        if op == 0:
            if ra == 15:
                return _unpred("pc in a halfword multiply")
            return (K_HMUL, cond, (0, rd, rn, rm, ra, nflag, mflag), "smla%s%s%s %s, %s, %s, %s" % (x, y, c, REG[rd], REG[rn], REG[rm], REG[ra]))
        if op == 1:
            if nflag == 0:
                if ra == 15:
                    return _unpred("pc in a halfword multiply")
                return (K_HMUL, cond, (1, rd, rn, rm, ra, 0, mflag), "smlaw%s%s %s, %s, %s, %s" % (y, c, REG[rd], REG[rn], REG[rm], REG[ra]))
            if ra != 0:
                return _unpred("SBZ field of smulw")
            return (K_HMUL, cond, (2, rd, rn, rm, 0, 0, mflag), "smulw%s%s %s, %s, %s" % (y, c, REG[rd], REG[rn], REG[rm]))
        if op == 2:
            if ra == 15 or ra == rd:
                return _unpred("RdLo/RdHi of smlalxy")
            return (K_HMUL, cond, (3, rd, rn, rm, ra, nflag, mflag), "smlal%s%s%s %s, %s, %s, %s" % (x, y, c, REG[ra], REG[rd], REG[rn], REG[rm]))
        if ra != 0:
            return _unpred("SBZ field of smulxy")
        return (K_HMUL, cond, (4, rd, rn, rm, 0, nflag, mflag), "smul%s%s%s %s, %s, %s" % (x, y, c, REG[rd], REG[rn], REG[rm]))
    op2 = (w >> 4) & 7
    if op2 == 0:
        if (w >> 9) & 1:
            return _unsup(cond, "banked mrs/msr")
        if op in (0, 2):
            if (w & 0x0FBF0FFF) != 0x010F0000:
                return _unpred("SBO/SBZ fields of mrs")
            if op == 2:
                return _unsup(cond, "mrs spsr")
            rd = (w >> 12) & 15
            if rd == 15:
                return _unpred("mrs to pc")
            return (K_MRS, cond, (rd,), "mrs%s %s, apsr" % (c, REG[rd]))
        if op == 1:
            if (w & 0x0FF0FFF0) != 0x0120F000:
                return _unpred("SBO/SBZ fields of msr")
            mask = (w >> 16) & 15
            if mask & 3:
                return _unsup(cond, "msr to the control/extension fields of cpsr")
            if mask == 0:
                return _unpred("msr with an empty mask")
            rn = w & 15
            if rn == 15:
                return _unpred("msr from pc")
            name = {2: "APSR_nzcvq", 1: "APSR_g", 3: "APSR_nzcvqg"}[mask >> 2]
            return (K_MSR, cond, (1, rn, mask >> 2), "msr%s %s, %s" % (c, name, REG[rn]))
        return _unsup(cond, "msr spsr")
    if op2 == 1:
        if op == 1:
            if (w & 0x0FFFFFF0) != 0x012FFF10:
                return _unpred("SBO field of bx")
            return (K_BX, cond, (0, w & 15), "bx%s %s" % (c, REG[w & 15]))
        if op == 3:
            if (w & 0x0FFF0FF0) != 0x016F0F10:
                return _unpred("SBO fields of clz")
            rd, rm = (w >> 12) & 15, w & 15
            if 15 in (rd, rm):
                return _unpred("pc in clz")
            return (K_UNARY, cond, (0, rd, rm), "clz%s %s, %s" % (c, REG[rd], REG[rm]))
        return _bad("miscellaneous op2=001")
    if op2 == 2:
        if op == 1:
            return _unsup(cond, "bxj")
        return _bad("miscellaneous op2=010")
    if op2 == 3:
        if op == 1:
            if (w & 0x0FFFFFF0) != 0x012FFF30:
                return _unpred("SBO field of blx")
            if w & 15 == 15:
                return _unpred("blx pc")
            return (K_BX, cond, (1, w & 15), "blx%s %s" % (c, REG[w & 15]))
        return _bad("miscellaneous op2=011")
    if op2 == 5:
        return _unsup(cond, "saturating add/subtract")
    if op2 == 6:
        if op == 3:
            return _unsup(cond, "eret")
        return _bad("miscellaneous op2=110")
    if op2 == 7:
        imm = ((w >> 8) & 0xFFF) << 4 | (w & 15)
        if op == 1:
            if cond != 14:
                return _unpred("conditional bkpt")
            return (K_TRAP, cond, ("bkpt", imm), "bkpt #%d" % imm)
        if op in (2, 3):
            return _unsup(cond, "hvc/smc")
        return _bad("miscellaneous op2=111")
    return _bad("miscellaneous op2=100")


def _decode_mul(w, cond):
    """A5.2.5 multiply and multiply accumulate (bits 27:24 = 0000, bits 7:4 = 1001)."""
    c = COND[cond]
    op = (w >> 20) & 15
    s = (w >> 20) & 1
    rd, ra, rm, rn = (w >> 16) & 15, (w >> 12) & 15, (w >> 8) & 15, w & 15
    sfx = ("s" if s else "") + c
    if op >> 1 == 0:
        if ra != 0:
            return _unpred("SBZ field of mul")
        if 15 in (rd, rn, rm):
            return _unpred("pc in mul")
        return (K_MUL, cond, (s, rd, rn, rm), "mul%s %s, %s, %s" % (sfx, REG[rd], REG[rn], REG[rm]))
    if op >> 1 == 1:
        if 15 in (rd, rn, rm, ra):
            return _unpred("pc in mla")
        return (K_MLA, cond, (s, rd, rn, rm, ra), "mla%s %s, %s, %s, %s" % (sfx, REG[rd], REG[rn], REG[rm], REG[ra]))
    if op == 4:
        if 15 in (rd, rn, rm, ra) or rd == ra:
            return _unpred("registers of umaal")
        return (K_MULL, cond, (4, 0, rd, ra, rn, rm), "umaal%s %s, %s, %s, %s" % (c, REG[ra], REG[rd], REG[rn], REG[rm]))
    if op == 6:
        if 15 in (rd, rn, rm, ra):
            return _unpred("pc in mls")
        return (K_MLS, cond, (rd, rn, rm, ra), "mls%s %s, %s, %s, %s" % (c, REG[rd], REG[rn], REG[rm], REG[ra]))
    if op in (5, 7):
        return _bad("multiply op=%d" % op)
    if 15 in (rd, rn, rm, ra) or rd == ra:
        return _unpred("registers of a long multiply")
    which = (op >> 1) & 3  # 0 umull, 1 umlal, 2 smull, 3 smlal
    name = ("umull", "umlal", "smull", "smlal")[which]
    return (K_MULL, cond, (which, s, rd, ra, rn, rm), "%s%s %s, %s, %s, %s" % (name, sfx, REG[ra], REG[rd], REG[rn], REG[rm]))


def _addr_text(rn, p, wb, off, post_off):
    """[rn{, off}]{!}  |  [rn], off      (llvm-mc prints the zero offset of a pre-indexed form: [rn, #0]!)"""
    if p:
        if wb and not off:
            off = "#0"
        return "[%s%s]%s" % (REG[rn], ", " + off if off else "", "!" if wb else "")
    return "[%s], %s" % (REG[rn], post_off)


def _decode_extra_ls(w, cond):
    """A5.2.8 extra load/store instructions: strh ldrh ldrd ldrsb strd ldrsh."""
    c = COND[cond]
    p, u, i, wbit, l = (w >> 24) & 1, (w >> 23) & 1, (w >> 22) & 1, (w >> 21) & 1, (w >> 20) & 1
    op2 = (w >> 5) & 3
    rn, rt = (w >> 16) & 15, (w >> 12) & 15
    if p == 0 and wbit == 1:
        return _unsup(cond, "unprivileged extra load/store")
    if op2 == 1:
        name, size, signed, load = ("ldrh", 2, 0, 1) if l else ("strh", 2, 0, 0)
    elif l:
        name, size, signed, load = ("ldrsb", 1, 1, 1) if op2 == 2 else ("ldrsh", 2, 1, 1)
    else:
        name, size, signed, load = ("ldrd", 8, 0, 1) if op2 == 2 else ("strd", 8, 0, 0)
    wb = 1 if (p == 0 or wbit == 1) else 0
    sign = "" if u else "-"
    if i:
        imm = ((w >> 8) & 15) << 4 | (w & 15)
        rm = None
        off = "#%s%d" % (sign, imm) if (imm or not u) else ""
        post = "#%s%d" % (sign, imm)
        if rn == 15 and wb:
            return _unpred("literal form with writeback")
    else:
        if (w >> 8) & 15:
            return _unpred("SBZ field of a register-offset extra load/store")
        imm = 0
        rm = w & 15
        off = post = sign + REG[rm]
        if rm == 15:
            return _unpred("pc as the offset register")
        if rn == 15 and wb:
            return _unpred("pc as base with writeback")
        if wb and rm == rn:
            return _unpred("offset register = base register with writeback")
        if size == 8 and load and rm in (rt, rt + 1):
            return _unpred("ldrd offset register in the destination pair")
    if size == 8:
        if rt & 1:
            return _unpred("ldrd/strd with an odd Rt")
        if rt == 14:
            return _unpred("ldrd/strd with Rt2 = pc")
        if wb and (rn == rt or rn == rt + 1):
            return _unpred("writeback base in the transfer pair")
        regs = "%s, %s" % (REG[rt], REG[rt + 1])
    else:
        if rt == 15:
            return _unpred("pc as Rt of a halfword/signed-byte transfer")
        if wb and rn == rt:
            return _unpred("writeback base = Rt")
        regs = REG[rt]
    text = "%s%s %s, %s" % (name, c, regs, _addr_text(rn, p, wb and p, off, post))
    return (K_LSX, cond, (load, size, signed, rt, rn, rm, imm, u, p, wb), text)


def _decode_ls(w, cond):
    """A5.3 load/store word and unsigned byte."""
    c = COND[cond]
    reg, p, u, b, wbit, l = (w >> 25) & 1, (w >> 24) & 1, (w >> 23) & 1, (w >> 22) & 1, (w >> 21) & 1, (w >> 20) & 1
    rn, rt = (w >> 16) & 15, (w >> 12) & 15
    if p == 0 and wbit == 1:
        return _unsup(cond, "ldrt/strt")
    name = ("ldr" if l else "str") + ("b" if b else "")
    wb = 1 if (p == 0 or wbit == 1) else 0
    sign = "" if u else "-"
    if reg:
        rm = w & 15
        stype, amt = decode_imm_shift((w >> 5) & 3, (w >> 7) & 31)
        imm = 0
        off = post = sign + REG[rm] + _shift_text(stype, amt)
        if rm == 15:
            return _unpred("pc as the offset register")
        if wb and rm == rn:
            return _unpred("offset register = base register with writeback")
    else:
        rm, stype, amt = None, 0, 0
        imm = w & 0xFFF
        off = "#%s%d" % (sign, imm) if (imm or not u) else ""
        post = "#%s%d" % (sign, imm)
    if wb and rn == 15:
        return _unpred("pc as base with writeback")
    if wb and rn == rt:
        return _unpred("writeback base = Rt")
    if b and rt == 15:
        return _unpred("pc as Rt of a byte transfer")
    text = "%s%s %s, %s" % (name, c, REG[rt], _addr_text(rn, p, wb and p, off, post))
    return (K_LS, cond, (l, b, rt, rn, rm, stype, amt, imm, u, p, wb), text)


def _decode_lsm(w, cond):
    c = COND[cond]
    p, u, s, wbit, l = (w >> 24) & 1, (w >> 23) & 1, (w >> 22) & 1, (w >> 21) & 1, (w >> 20) & 1
    rn = (w >> 16) & 15
    mask = w & 0xFFFF
    if s:
        return _unsup(cond, "ldm/stm of user registers / exception return")
    if rn == 15 or mask == 0:
        return _unpred("ldm/stm with pc as base or an empty list")
    if wbit and (mask >> rn) & 1:
        if l:
            return _unpred("ldm with writeback and the base in the list")
        if mask & ((1 << rn) - 1):
            return _unpred("stm with writeback and the base in the list, not lowest")
    mode = ("da", "", "db", "ib")[p << 1 | u]
    name = ("ldm" if l else "stm") + mode
    text = "%s%s %s%s, %s" % (name, c, REG[rn], "!" if wbit else "", _reglist(mask))
    if rn == 13 and wbit and bin(mask).count("1") > 1:
        if l and p == 0 and u == 1:
            text = "pop%s %s" % (c, _reglist(mask))
        elif not l and p == 1 and u == 0:
            text = "push%s %s" % (c, _reglist(mask))
    return (K_LSM, cond, (l, p, u, wbit, rn, mask), text)


def _decode_media(w, cond):
    """A5.4 media instructions (bits 27:25 = 011, bit 4 = 1)."""
    c = COND[cond]
    op1 = (w >> 20) & 31
    op2 = (w >> 5) & 7
    if op1 == 31 and op2 == 7:
        if cond != 14:
            return _bad("udf with a condition")
        return (K_TRAP, cond, ("udf", ((w >> 8) & 0xFFF) << 4 | (w & 15)), "udf #%d" % (((w >> 8) & 0xFFF) << 4 | (w & 15)))
    if op1 >> 3 == 0:
        return _unsup(cond, "parallel add/subtract")
    if op1 >> 3 == 1:
        # A5.4.3 packing, unpacking, saturation, reversal
        o1 = op1 & 7
        rd, rm, a = (w >> 12) & 15, w & 15, (w >> 16) & 15
        if op2 & 1 == 0:
            if o1 == 0:
                return _unsup(cond, "pkh")
            if o1 in (2, 3, 6, 7):
                # ssat / usat:  cond 0110 1U1 sat_imm Rd imm5 sh 01 Rn
                unsigned = (o1 >> 2) & 1
                sat = (w >> 16) & 31
                stype, amt = decode_imm_shift(2 if (w >> 6) & 1 else 0, (w >> 7) & 31)
                if 15 in (rd, rm):
                    return _unpred("pc in ssat/usat")
                n = sat if unsigned else sat + 1
                text = "%s%s %s, #%d, %s%s" % ("usat" if unsigned else "ssat", c, REG[rd], n, REG[rm], _shift_text(stype, amt))
                return (K_SAT, cond, (unsigned, rd, rm, n, stype, amt), text)
            return _bad("media packing op1=%d" % o1)
        if op2 == 3:
            if o1 in (0, 4):
                return _unsup(cond, "sxtb16/uxtb16")
            if o1 in (2, 3, 6, 7):
                if (w >> 8) & 3:
                    return _unpred("SBZ field of an extend instruction")
                unsigned = (o1 >> 2) & 1
                half = o1 & 1
                rot = ((w >> 10) & 3) * 8
                if 15 in (rd, rm):
                    return _unpred("pc in an extend instruction")
                base = ("u" if unsigned else "s") + "xt"
                rtxt = ", ror #%d" % rot if rot else ""
                if a == 15:
                    text = "%s%s%s %s, %s%s" % (base, "h" if half else "b", c, REG[rd], REG[rm], rtxt)
                else:
                    text = "%sa%s%s %s, %s, %s%s" % (base, "h" if half else "b", c, REG[rd], REG[a], REG[rm], rtxt)
                return (K_EXT, cond, (unsigned, half, rd, a, rm, rot), text)
            return _bad("media extend op1=%d" % o1)
        if op2 in (1, 5):
            which = {(3, 1): (1, "rev"), (3, 5): (2, "rev16"), (7, 1): (3, "rbit"), (7, 5): (4, "revsh")}.get((o1, op2))
            if which is not None:
                if (w & 0x000F0F00) != 0x000F0F00:
                    return _unpred("SBO fields of a reversal instruction")
                if 15 in (rd, rm):
                    return _unpred("pc in a reversal instruction")
                return (K_UNARY, cond, (which[0], rd, rm), "%s%s %s, %s" % (which[1], c, REG[rd], REG[rm]))
            if o1 == 0 and op2 == 5:
                return _unsup(cond, "sel")
            if o1 in (2, 6) and op2 == 1:
                return _unsup(cond, "ssat16/usat16")
            return _bad("media reversal op1=%d op2=%d" % (o1, op2))
        return _bad("media packing op2=%d" % op2)
    if op1 >> 3 == 2:
        # A5.4.4 signed multiply, signed and unsigned divide
        o1 = op1 & 7
        rd, ra, rm, rn = (w >> 16) & 15, (w >> 12) & 15, (w >> 8) & 15, w & 15
        if o1 in (1, 3) and op2 == 0:
            if ra != 15:
                return _unpred("SBO field of sdiv/udiv")
            if 15 in (rd, rn, rm):
                return _unpred("pc in sdiv/udiv")
            return (K_DIV, cond, (1 if o1 == 3 else 0, rd, rn, rm), "%s%s %s, %s, %s" % ("udiv" if o1 == 3 else "sdiv", c, REG[rd], REG[rn], REG[rm]))
        if o1 == 5 and op2 in (0, 1, 6, 7):
            rnd = op2 & 1
            if 15 in (rd, rn, rm):
                return _unpred("pc in smmul")
            r = "r" if rnd else ""
            if op2 >> 1 == 0:
                if ra == 15:
                    return (K_MMUL, cond, (0, rd, rn, rm, 0, rnd), "smmul%s%s %s, %s, %s" % (r, c, REG[rd], REG[rn], REG[rm]))
                return (K_MMUL, cond, (1, rd, rn, rm, ra, rnd), "smmla%s%s %s, %s, %s, %s" % (r, c, REG[rd], REG[rn], REG[rm], REG[ra]))
            if ra == 15:
                return _unpred("pc in smmls")
            return (K_MMUL, cond, (2, rd, rn, rm, ra, rnd), "smmls%s%s %s, %s, %s, %s" % (r, c, REG[rd], REG[rn], REG[rm], REG[ra]))
        if o1 in (0, 4) and op2 >> 2 == 0:
            return _unsup(cond, "dual multiply")
        return _bad("media multiply op1=%d op2=%d" % (o1, op2))
    # op1 = 11xxx
    if op1 == 24 and op2 == 0:
        return _unsup(cond, "usad8/usada8")
    rd, rn = (w >> 12) & 15, w & 15
    lsb = (w >> 7) & 31
    if op1 >> 1 in (13, 15) and op2 & 3 == 2:
        unsigned = 1 if op1 >> 1 == 15 else 0
        width = ((w >> 16) & 31) + 1
        if 15 in (rd, rn):
            return _unpred("pc in a bit-field extract")
        if lsb + width > 32:
            return _unpred("bit-field extract beyond bit 31")
        return (K_BFX, cond, (unsigned, rd, rn, lsb, width), "%s%s %s, %s, #%d, #%d" % ("ubfx" if unsigned else "sbfx", c, REG[rd], REG[rn], lsb, width))
    if op1 >> 1 == 14 and op2 & 3 == 0:
        msb = (w >> 16) & 31
        if rd == 15:
            return _unpred("pc in bfi/bfc")
        if msb < lsb:
            return _unpred("bfi/bfc with msb < lsb")
        width = msb - lsb + 1
        if rn == 15:
            return (K_BFI, cond, (rd, None, lsb, width), "bfc%s %s, #%d, #%d" % (c, REG[rd], lsb, width))
        return (K_BFI, cond, (rd, rn, lsb, width), "bfi%s %s, %s, #%d, #%d" % (c, REG[rd], REG[rn], lsb, width))
    return _bad("media op1=%d op2=%d" % (op1, op2))


_BARRIER_OPT = {15: "sy", 14: "st", 13: "ld", 11: "ish", 10: "ishst", 9: "ishld", 7: "nsh", 6: "nshst", 5: "nshld", 3: "osh", 2: "oshst", 1: "oshld"}


def _decode_uncond(w):
    """A5.7 unconditional instructions (cond = 1111)."""
    if (w >> 25) & 7 == 5:
        imm = _sx(w & 0xFFFFFF, 24) * 4 + ((w >> 24) & 1) * 2
        return _unsup(15, "blx to Thumb state", "blx #%d" % imm)
    if (w & 0xFFFFFFF0) in (0xF57FF040, 0xF57FF050, 0xF57FF060):
        name = {4: "dsb", 5: "dmb", 6: "isb"}[(w >> 4) & 15]
        opt = w & 15
        ok = _BARRIER_OPT.get(opt) if name != "isb" else ("sy" if opt == 15 else None)
        if name != "isb" and opt in (13, 9, 5, 1):
            ok = None  # the load-only options are ARMv8
        return (K_NOP, 14, (name,), None if ok is None else "%s %s" % (name, ok))
    if w == 0xF57FF01F:
        return _unsup(15, "clrex", "clrex")
    if (w & 0xFF30F000) == 0xF510F000:
        # pld / pldw [rn, #imm] (and the literal form)
        u, r, rn, imm = (w >> 23) & 1, (w >> 22) & 1, (w >> 16) & 15, w & 0xFFF
        off = ", #%s%d" % ("" if u else "-", imm) if (imm or not u) else ""
        if rn == 15 and not r:
            return _unpred("pldw literal")
        return (K_NOP, 14, ("pld",), "%s [%s%s]" % ("pld" if r else "pldw", REG[rn], off))
    if (w & 0xFF30F010) == 0xF710F000:
        u, r, rn, rm = (w >> 23) & 1, (w >> 22) & 1, (w >> 16) & 15, w & 15
        stype, amt = decode_imm_shift((w >> 5) & 3, (w >> 7) & 31)
        if rm == 15 or (rn == 15 and not r):
            return _unpred("pc in pld (register)")
        return (K_NOP, 14, ("pld",), "%s [%s, %s%s%s]" % ("pld" if r else "pldw", REG[rn], "" if u else "-", REG[rm], _shift_text(stype, amt)))
    return _unsup(15, "unconditional instruction space (simd, srs/rfe, cps, coprocessor ...)")


def decode(w):
    """word -> (kind, cond, args, text)."""
    w &= M32
    cond = w >> 28
    if cond == 15:
        return _decode_uncond(w)
    c = COND[cond]
    op1 = (w >> 25) & 7
    if op1 == 0:
        b4, b7 = (w >> 4) & 1, (w >> 7) & 1
        opx = (w >> 20) & 31
        if b4 and b7:
            op2 = (w >> 5) & 3
            if op2 == 0:
                if (w >> 24) & 1 == 0:
                    return _decode_mul(w, cond)
                return _unsup(cond, "synchronization primitive (swp, ldrex/strex)")
            return _decode_extra_ls(w, cond)
        if opx & 0b11001 == 0b10000:
            return _decode_misc(w, cond)
        return _decode_dp(w, cond)
    if op1 == 1:
        opx = (w >> 20) & 31
        if opx == 0b10000:
            rd = (w >> 12) & 15
            imm = ((w >> 16) & 15) << 12 | (w & 0xFFF)
            if rd == 15:
                return _unpred("movw to pc")
            return (K_MOVW, cond, (rd, imm), "movw%s %s, #%d" % (c, REG[rd], imm))
        if opx == 0b10100:
            rd = (w >> 12) & 15
            imm = ((w >> 16) & 15) << 12 | (w & 0xFFF)
            if rd == 15:
                return _unpred("movt to pc")
            return (K_MOVT, cond, (rd, imm), "movt%s %s, #%d" % (c, REG[rd], imm))
        if opx & 0b11011 == 0b10010:
            # msr immediate and hints
            if (w >> 12) & 15 != 15:
                return _unpred("SBO field of msr immediate / hint")
            mask = (w >> 16) & 15
            if (w >> 22) & 1:
                return _unsup(cond, "msr spsr")
            if mask == 0:
                h = w & 0xFF
                if (w & 0xF00) == 0 and h <= 4:
                    name = ("nop", "yield", "wfe", "wfi", "sev")[h]
                    return (K_NOP, cond, (name,), name + c)
                return (K_NOP, cond, ("hint",), None)
            if mask & 3:
                return _unsup(cond, "msr to the control/extension fields of cpsr")
            name = {2: "APSR_nzcvq", 1: "APSR_g", 3: "APSR_nzcvqg"}[mask >> 2]
            val = _ror(w & 0xFF, 2 * ((w >> 8) & 15))
            return (K_MSR, cond, (0, w & 0xFFF, mask >> 2), "msr%s %s, #%d" % (c, name, val))
        return _decode_dp(w, cond)
    if op1 == 2:
        return _decode_ls(w, cond)
    if op1 == 3:
        if (w >> 4) & 1:
            return _decode_media(w, cond)
        return _decode_ls(w, cond)
    if op1 == 4:
        return _decode_lsm(w, cond)
    if op1 == 5:
        imm = _sx(w & 0xFFFFFF, 24) * 4
        link = (w >> 24) & 1
        return (K_B, cond, (link, imm), "%s%s #%d" % ("bl" if link else "b", c, imm))
    if op1 == 7 and (w >> 24) & 1:
        return (K_TRAP, cond, ("svc", w & 0xFFFFFF), "svc%s #%d" % (c, w & 0xFFFFFF))
    return _unsup(cond, "coprocessor / VFP / NEON")


def disasm(w):
    return decode(w)[3]


def is_undefined(w):
    d = decode(w)
    return d[0] == K_BAD and d[2][0] == "undefined"


def _cond_passed(cond, n, z, c, v):
    k = cond >> 1
    if k == 0:
        r = z
    elif k == 1:
        r = c
    elif k == 2:
        r = n
    elif k == 3:
        r = v
    elif k == 4:
        r = c and not z
    elif k == 5:
        r = n == v
    elif k == 6:
        r = n == v and not z
    else:
        return True
    return bool(r) != bool(cond & 1)


class Machine:
    def __init__(self, step_limit=2_000_000):
        self.step_limit = step_limit
        self.regs = [0] * 16
        self.n = self.z = self.c = self.v = self.q = 0
        self.ge = 0
        self.pc = 0
        self.regions = []  # (base, end, bytearray, name)
        self.steps = 0
        self.misaligned = 0
        self.executed = set()
        self._dcache = {}
        self._last = None
        self.stack_top = None
        self.hooks = {}  # address -> callable(machine): host function, execution resumes at lr

    # -- state -------------------------------------------------------------
    def apsr(self):
        return self.n << 31 | self.z << 30 | self.c << 29 | self.v << 28 | self.q << 27 | self.ge << 16

    def set_apsr(self, v, nzcvq=True, g=True):
        if nzcvq:
            self.n, self.z, self.c, self.v, self.q = (v >> 31) & 1, (v >> 30) & 1, (v >> 29) & 1, (v >> 28) & 1, (v >> 27) & 1
        if g:
            self.ge = (v >> 16) & 15

    # -- memory ------------------------------------------------------------
    def map(self, addr, size, data=None, name=None):
        addr &= M32
        buf = bytearray(size)
        if data is not None:
            buf[: len(data)] = data
        for b, e, _, n in self.regions:
            if addr < e and b < addr + size:
                raise ValueError("region %r at 0x%x+%d overlaps %r" % (name, addr, size, n))
        reg = (addr, addr + size, buf, name)
        self.regions.append(reg)
        return reg

    def _region(self, addr, n, kind):
        r = self._last
        if r is not None and r[0] <= addr and addr + n <= r[1]:
            return r
        for r in self.regions:
            if r[0] <= addr and addr + n <= r[1]:
                self._last = r
                return r
        raise MemoryFault(addr, n, kind)

    def read(self, addr, n):
        addr &= M32
        if n == 0:
            return b""
        r = self._region(addr, n, "read")
        o = addr - r[0]
        return bytes(r[2][o : o + n])

    def write(self, addr, data):
        addr &= M32
        if not data:
            return
        r = self._region(addr, len(data), "write")
        o = addr - r[0]
        r[2][o : o + len(data)] = data

    load_bytes = write

    def read_u32(self, addr):
        return int.from_bytes(self.read(addr, 4), "little")

    def write_u32(self, addr, v):
        self.write(addr, (v & M32).to_bytes(4, "little"))

    def _ld(self, addr, n, kind="load"):
        addr &= M32
        r = self._last
        if r is None or not (r[0] <= addr and addr + n <= r[1]):
            r = self._region(addr, n, kind)
        o = addr - r[0]
        return int.from_bytes(r[2][o : o + n], "little")

    def _st(self, addr, n, v, kind="store"):
        addr &= M32
        r = self._last
        if r is None or not (r[0] <= addr and addr + n <= r[1]):
            r = self._region(addr, n, kind)
        o = addr - r[0]
        r[2][o : o + n] = (v & ((1 << (8 * n)) - 1)).to_bytes(n, "little")

    def load_object(self, obj, extra=0):
        """Map every image of a ppci-linked ObjectFile (zero-size images are skipped)."""
        res = []
        for image in obj.images:
            data = bytes(image.data)
            if not data and not extra:
                continue
            res.append(self.map(image.address, len(data) + extra, data, name=image.name))
        return res

    def load(self, image, base, name="image", extra=16):
        return self.map(base, len(image) + extra, image, name=name)

    def map_stack(self, top=0xF0000000, size=0x10000):
        self.map(top - size, size + 64, name="stack")
        self.stack_top = top
        return top

    # -- calls ---------------------------------------------------------------
    def call(self, entry, args=(), sp=None, step_limit=None, convention="aapcs"):
        """Call the function at `entry`; returns r0 (m.ret64() = r0 | r1 << 32)."""
        if sp is None:
            if self.stack_top is None:
                self.map_stack()
            sp = self.stack_top
        stack = []
        if convention == "ppci":
            # ppci ArmArch.determine_arg_locations: the first four non-blob arguments in r1..r4, result in r0
            if len(args) > 4:
                raise NotImplementedError("ppci convention: stack arguments are not modelled")
            for i, a in enumerate(args):
                self.regs[1 + i] = int(a) & M32
        else:
            ncrn = 0
            for a in args:
                if isinstance(a, (tuple, list)) and a[0] == "i64":
                    v = a[1] & 0xFFFFFFFFFFFFFFFF
                    if ncrn & 1:
                        ncrn += 1
                    if ncrn <= 2 and not stack:
                        self.regs[ncrn] = v & M32
                        self.regs[ncrn + 1] = v >> 32
                        ncrn += 2
                    else:
                        ncrn = 4
                        if len(stack) & 1:
                            stack.append(0)
                        stack.append(v & M32)
                        stack.append(v >> 32)
                elif ncrn < 4 and not stack:
                    self.regs[ncrn] = int(a) & M32
                    ncrn += 1
                else:
                    ncrn = 4
                    stack.append(int(a) & M32)
        sp = (sp - 4 * len(stack)) & ~7
        for i, v in enumerate(stack):
            self.write_u32(sp + 4 * i, v)
        self.regs[13] = sp & M32
        self.regs[14] = SENTINEL
        self.run(entry, SENTINEL, step_limit)
        return self.regs[0]

    def ret64(self):
        return self.regs[0] | self.regs[1] << 32

    # -- execution -------------------------------------------------------------
    def _branch_to(self, target, pc, enc, interworking):
        """BXWritePC (interworking) / BranchWritePC."""
        if interworking:
            if target & 1:
                raise Unsupported("switch to Thumb state (target 0x%08x) at pc=0x%08x" % (target, pc))
            if target & 2:
                raise Unpredictable(pc, enc, "interworking branch to an address with bits<1:0> = 10")
            return target
        return target & ~3 & M32

    def step(self, pc):
        """Execute the single instruction at pc; returns the next pc."""
        self.run(pc, until=None, step_limit=1, _single=True)
        return self.pc

    def run(self, pc, until=SENTINEL, step_limit=None, _single=False):
        regs = self.regs
        dcache = self._dcache
        executed = self.executed
        limit = self.step_limit if step_limit is None else step_limit
        hooks = self.hooks
        steps = 0
        pc &= M32
        try:
            while pc != until:
                if hooks and pc in hooks:
                    self.pc = pc
                    hooks[pc](self)
                    pc = regs[14] & ~1 & M32
                    continue
                if steps >= limit:
                    if _single:
                        break
                    raise StepLimit("step limit %d reached at pc=0x%08x" % (limit, pc))
                if pc & 3:
                    raise Unpredictable(pc, 0, "instruction fetch from an address that is not word aligned")
                steps += 1
                r = self._last
                if r is None or not (r[0] <= pc and pc + 4 <= r[1]):
                    r = self._region(pc, 4, "fetch")
                o = pc - r[0]
                mem = r[2]
                enc = mem[o] | mem[o + 1] << 8 | mem[o + 2] << 16 | mem[o + 3] << 24
                d = dcache.get(enc)
                if d is None:
                    dd = decode(enc)
                    if dd[0] == K_BAD:
                        if dd[2][0] == "undefined":
                            raise IllegalInstruction(pc, enc)
                        raise Unpredictable(pc, enc, dd[2][1])
                    if dd[0] == K_UNSUP:
                        # the condition is not looked at: nothing is known about the instruction
                        raise Unsupported("%s: 0x%08x at pc=0x%08x" % (dd[2][0], enc, pc))
                    d = dd[:3]
                    dcache[enc] = d
                    executed.add(enc)
                kind, cond, a = d
                npc = (pc + 4) & M32
                if cond != 14 and not _cond_passed(cond, self.n, self.z, self.c, self.v):
                    pc = npc
                    continue
                regs[15] = (pc + 8) & M32
                if kind == K_DP:
                    opc, s, rd, rn, mode, rm, stype, amt = a
                    cin = self.c
                    if mode == 0:
                        op2, sc = expand_imm_c(amt, cin)
                    elif mode == 1:
                        op2, sc = shift_c(regs[rm], stype, amt, cin)
                    else:
                        op2, sc = shift_c(regs[rm], stype, regs[amt] & 0xFF, cin)
                    x = regs[rn]
                    arith = False
                    if opc == MOV:
                        res = op2
                    elif opc == ADD or opc == CMN:
                        res, co, ov = add_with_carry(x, op2, 0)
                        arith = True
                    elif opc == SUB or opc == CMP:
                        res, co, ov = add_with_carry(x, op2 ^ M32, 1)
                        arith = True
                    elif opc == AND or opc == TST:
                        res = x & op2
                    elif opc == ORR:
                        res = x | op2
                    elif opc == EOR or opc == TEQ:
                        res = x ^ op2
                    elif opc == BIC:
                        res = x & (op2 ^ M32)
                    elif opc == MVN:
                        res = op2 ^ M32
                    elif opc == RSB:
                        res, co, ov = add_with_carry(x ^ M32, op2, 1)
                        arith = True
                    elif opc == ADC:
                        res, co, ov = add_with_carry(x, op2, cin)
                        arith = True
                    elif opc == SBC:
                        res, co, ov = add_with_carry(x, op2 ^ M32, cin)
                        arith = True
                    else:  # RSC
                        res, co, ov = add_with_carry(x ^ M32, op2, cin)
                        arith = True
                    if 8 <= opc <= 11:
                        self.n, self.z = res >> 31, 1 if res == 0 else 0
                        if arith:
                            self.c, self.v = co, ov
                        else:
                            self.c = sc
                    elif rd == 15:
                        npc = self._branch_to(res, pc, enc, True)  # ALUWritePC: interworking in ARMv7
                    else:
                        regs[rd] = res
                        if s:
                            self.n, self.z = res >> 31, 1 if res == 0 else 0
                            if arith:
                                self.c, self.v = co, ov
                            else:
                                self.c = sc
                elif kind == K_LS:
                    l, b, rt, rn, rm, stype, amt, imm, u, p, wb = a
                    if rm is None:
                        off = imm
                    else:
                        off = shift_c(regs[rm], stype, amt, self.c)[0]
                    base = regs[rn]
                    if rn == 15:
                        base &= ~3  # Align(PC, 4): a no-op in ARM state
                    oa = (base + off if u else base - off) & M32
                    addr = oa if p else base
                    n = 1 if b else 4
                    if n == 4 and addr & 3:
                        self.misaligned += 1
                    if l:
                        val = self._ld(addr, n)
                        if wb:
                            regs[rn] = oa
                        if rt == 15:
                            if addr & 3:
                                raise Unpredictable(pc, enc, "load to pc from an unaligned address")
                            npc = self._branch_to(val, pc, enc, True)
                        else:
                            regs[rt] = val
                    else:
                        self._st(addr, n, regs[rt])
                        if wb:
                            regs[rn] = oa
                elif kind == K_B:
                    link, imm = a
                    if link:
                        regs[14] = npc
                    npc = (pc + 8 + imm) & M32
                elif kind == K_BX:
                    link, rm = a
                    target = regs[rm]
                    if link:
                        regs[14] = npc
                    npc = self._branch_to(target, pc, enc, True)
                elif kind == K_LSM:
                    l, p, u, wbit, rn, mask = a
                    cnt = bin(mask).count("1")
                    base = regs[rn]
                    if u:
                        addr = base + (4 if p else 0)
                        nb = base + 4 * cnt
                    else:
                        addr = base - 4 * cnt + (0 if p else 4)
                        nb = base - 4 * cnt
                    addr &= M32
                    if addr & 3:
                        raise AlignmentFault(addr, 4 * cnt, "ldm" if l else "stm")
                    if l:
                        vals = []
                        for i in range(16):
                            if (mask >> i) & 1:
                                vals.append((i, self._ld(addr, 4)))
                                addr = (addr + 4) & M32
                        if wbit:
                            regs[rn] = nb & M32
                        for i, val in vals:
                            if i == 15:
                                npc = self._branch_to(val, pc, enc, True)
                            else:
                                regs[i] = val
                    else:
                        # check the whole range first: a fault must not leave a partial store
                        self._region(addr, 4 * cnt, "store")
                        for i in range(16):
                            if (mask >> i) & 1:
                                self._st(addr, 4, regs[i])
                                addr = (addr + 4) & M32
                        if wbit:
                            regs[rn] = nb & M32
                elif kind == K_LSX:
                    load, size, signed, rt, rn, rm, imm, u, p, wb = a
                    off = imm if rm is None else regs[rm]
                    base = regs[rn]
                    oa = (base + off if u else base - off) & M32
                    addr = oa if p else base
                    if size == 8:
                        if addr & 3:
                            raise AlignmentFault(addr, 8, "ldrd" if load else "strd")
                        if load:
                            v1, v2 = self._ld(addr, 4), self._ld(addr + 4, 4)
                            if wb:
                                regs[rn] = oa
                            regs[rt], regs[rt + 1] = v1, v2
                        else:
                            self._region(addr, 8, "store")
                            self._st(addr, 4, regs[rt])
                            self._st(addr + 4, 4, regs[rt + 1])
                            if wb:
                                regs[rn] = oa
                    else:
                        if size == 2 and addr & 1:
                            self.misaligned += 1
                        if load:
                            val = self._ld(addr, size)
                            if signed:
                                val = _sx(val, 8 * size) & M32
                            if wb:
                                regs[rn] = oa
                            regs[rt] = val
                        else:
                            self._st(addr, size, regs[rt])
                            if wb:
                                regs[rn] = oa
                elif kind == K_MOVW:
                    regs[a[0]] = a[1]
                elif kind == K_MOVT:
                    regs[a[0]] = (regs[a[0]] & 0xFFFF) | a[1] << 16
                elif kind == K_MUL:
                    s, rd, rn, rm = a
                    res = (regs[rn] * regs[rm]) & M32
                    regs[rd] = res
                    if s:
                        self.n, self.z = res >> 31, 1 if res == 0 else 0
                elif kind == K_MLA:
                    s, rd, rn, rm, ra = a
                    res = (regs[rn] * regs[rm] + regs[ra]) & M32
                    regs[rd] = res
                    if s:
                        self.n, self.z = res >> 31, 1 if res == 0 else 0
                elif kind == K_MLS:
                    rd, rn, rm, ra = a
                    regs[rd] = (regs[ra] - regs[rn] * regs[rm]) & M32
                elif kind == K_MULL:
                    which, s, rdhi, rdlo, rn, rm = a
                    if which == 0:
                        res = regs[rn] * regs[rm]
                    elif which == 1:
                        res = regs[rn] * regs[rm] + (regs[rdhi] << 32 | regs[rdlo])
                    elif which == 2:
                        res = _s32(regs[rn]) * _s32(regs[rm])
                    elif which == 3:
                        res = _s32(regs[rn]) * _s32(regs[rm]) + (regs[rdhi] << 32 | regs[rdlo])
                    else:
                        res = regs[rn] * regs[rm] + regs[rdhi] + regs[rdlo]
                    res &= 0xFFFFFFFFFFFFFFFF
                    regs[rdhi], regs[rdlo] = res >> 32, res & M32
                    if s:
                        self.n, self.z = res >> 63, 1 if res == 0 else 0
                elif kind == K_HMUL:
                    which, rd, rn, rm, ra, nf, mf = a
                    y = _sx(regs[rm] >> 16 if mf else regs[rm], 16)
                    if which in (0, 3, 4):
                        x = _sx(regs[rn] >> 16 if nf else regs[rn], 16)
                    if which == 0:
                        res = x * y + _s32(regs[ra])
                        if res != _s32(res):
                            self.q = 1
                        regs[rd] = res & M32
                    elif which == 1:
                        res = ((_s32(regs[rn]) * y) >> 16) + _s32(regs[ra])
                        if res != _s32(res):
                            self.q = 1
                        regs[rd] = res & M32
                    elif which == 2:
                        regs[rd] = ((_s32(regs[rn]) * y) >> 16) & M32
                    elif which == 3:
                        acc = _sx(regs[rd] << 32 | regs[ra], 64) + x * y
                        regs[rd], regs[ra] = (acc >> 32) & M32, acc & M32
                    else:
                        regs[rd] = (x * y) & M32
                elif kind == K_MMUL:
                    which, rd, rn, rm, ra, rnd = a
                    prod = _s32(regs[rn]) * _s32(regs[rm])
                    if which == 0:
                        res = prod
                    elif which == 1:
                        res = (_s32(regs[ra]) << 32) + prod
                    else:
                        res = (_s32(regs[ra]) << 32) - prod
                    if rnd:
                        res += 0x80000000
                    regs[rd] = (res >> 32) & M32
                elif kind == K_DIV:
                    unsigned, rd, rn, rm = a
                    if regs[rm] == 0:
                        res = 0  # A profile: no trap, the result is zero
                    elif unsigned:
                        res = regs[rn] // regs[rm]
                    else:
                        x, y = _s32(regs[rn]), _s32(regs[rm])
                        qq = abs(x) // abs(y)
                        res = (-qq if (x < 0) != (y < 0) else qq) & M32  # RoundTowardsZero; INT_MIN / -1 wraps
                    regs[rd] = res
                elif kind == K_UNARY:
                    which, rd, rm = a
                    x = regs[rm]
                    if which == 0:
                        res = 32 - x.bit_length()
                    elif which == 1:
                        res = int.from_bytes(x.to_bytes(4, "little"), "big")
                    elif which == 2:
                        res = ((x & 0xFF00FF00) >> 8) | ((x & 0x00FF00FF) << 8)
                    elif which == 3:
                        res = int(format(x, "032b")[::-1], 2)
                    else:
                        res = _sx(((x & 0xFF) << 8) | ((x >> 8) & 0xFF), 16) & M32
                    regs[rd] = res
                elif kind == K_EXT:
                    unsigned, half, rd, ra, rm, rot = a
                    x = _ror(regs[rm], rot) & (0xFFFF if half else 0xFF)
                    if not unsigned:
                        x = _sx(x, 16 if half else 8)
                    if ra != 15:
                        x += regs[ra]
                    regs[rd] = x & M32
                elif kind == K_BFX:
                    unsigned, rd, rn, lsb, width = a
                    x = (regs[rn] >> lsb) & ((1 << width) - 1)
                    regs[rd] = x if unsigned else _sx(x, width) & M32
                elif kind == K_BFI:
                    rd, rn, lsb, width = a
                    m = ((1 << width) - 1) << lsb
                    src = 0 if rn is None else (regs[rn] << lsb) & m
                    regs[rd] = (regs[rd] & ~m & M32) | src
                elif kind == K_SAT:
                    unsigned, rd, rm, nbits, stype, amt = a
                    x = _s32(shift_c(regs[rm], stype, amt, self.c)[0])
                    res, sat = unsigned_sat_q(x, nbits) if unsigned else signed_sat_q(x, nbits)
                    regs[rd] = res & M32
                    if sat:
                        self.q = 1
                elif kind == K_MRS:
                    regs[a[0]] = self.apsr()
                elif kind == K_MSR:
                    isreg, src, fields = a
                    val = regs[src] if isreg else expand_imm_c(src, 0)[0]
                    self.set_apsr(val, nzcvq=bool(fields & 2), g=bool(fields & 1))
                elif kind == K_NOP:
                    pass
                elif kind == K_TRAP:
                    raise Trap(pc, "%s #%d" % a)
                else:  # pragma: no cover
                    raise IllegalInstruction(pc, enc)
                pc = npc
        finally:
            self.pc = pc
            self.steps += steps
        return regs[0]


# ---------------------------------------------------------------------------
# (a) decode validation against llvm-mc


def llvm_mc():
    return shutil.which("llvm-mc-14") or shutil.which("llvm-mc")


_LLVM_ARGS = ["--disassemble", "--show-encoding", "-triple=armv7a", "-mattr=+hwdiv-arm,+mp,+virtualization,+trustzone"]
_llvm_cache = {}


def llvm_disasm(words):
    """{word: (text | None (invalid), soft_fail)}: every word is fed as one line of four bytes; llvm-mc consumes ARM
    input in units of four bytes, valid or not, so the output lines pair up with the inputs that are not named by an
    `invalid instruction encoding` warning; `potentially undefined instruction encoding` (UNPREDICTABLE) still prints."""
    exe = llvm_mc()
    if exe is None:
        return None
    words = list(dict.fromkeys(w & M32 for w in words))
    todo = [w for w in words if w not in _llvm_cache]
    for i in range(0, len(todo), 20000):
        chunk = todo[i : i + 20000]
        src = "\n".join(" ".join("0x%02x" % b for b in w.to_bytes(4, "little")) for w in chunk) + "\n"
        p = subprocess.run([exe] + _LLVM_ARGS, input=src.encode(), capture_output=True, timeout=900)
        err = p.stderr.decode("latin-1")
        invalid = {int(m.group(1)) - 1 for m in re.finditer(r"<stdin>:(\d+):\d+: warning: invalid instruction encoding", err)}
        soft = {int(m.group(1)) - 1 for m in re.finditer(r"<stdin>:(\d+):\d+: warning: potentially undefined instruction encoding", err)}
        outs = []
        for line in p.stdout.decode("latin-1").splitlines():
            if "encoding: [" in line:
                outs.append(" ".join(line.split("@ encoding: [")[0].split()))
        if p.returncode != 0 or len(outs) + len(invalid) != len(chunk):
            raise RuntimeError("llvm-mc output cannot be re-associated (%d outputs + %d invalid != %d inputs)" % (len(outs), len(invalid), len(chunk)))
        k = 0
        for j, w in enumerate(chunk):
            if j in invalid:
                _llvm_cache[w] = (None, False)
            else:
                _llvm_cache[w] = (outs[k], j in soft)
                k += 1
    return {w: _llvm_cache[w] for w in words}


_MODIMM = re.compile(r"#(\d+), #(\d+)$")


def normalise(text):
    """Light normalisation of a disassembly line: white space, and llvm-mc's `#bits, #rot` rendering of a modified
    immediate whose rotation is not the canonical one, folded to the value."""
    if text is None:
        return None
    t = " ".join(text.replace("\t", " ").split())
    m = _MODIMM.search(t)
    if m and not t.startswith(("ubfx", "sbfx", "bfi", "bfc")):
        v = _ror(int(m.group(1)), int(m.group(2)))
        t = t[: m.start()] + "#%d" % (v if t.startswith("msr") else _s32(v))  # llvm-mc prints msr immediates unsigned
    return t


def validate_decode(words):
    """Compare disasm() with llvm-mc.  Returns dict(compared, unmodelled, unpredictable, mismatches)."""
    words = list(dict.fromkeys(w & M32 for w in words))
    ref = llvm_disasm(words)
    if ref is None:
        return {"compared": 0, "unmodelled": 0, "unpredictable": 0, "mismatches": ["llvm-mc not available"]}
    n = unmodelled = unpred = 0
    bad = []
    for w in words:
        d = decode(w)
        theirs, soft = ref[w]
        if d[0] == K_BAD:
            if d[2][0] == "unpredictable":
                unpred += 1  # nothing is executed for these; llvm-mc prints most of them (some with a warning)
                continue
            n += 1
            if theirs is not None and not soft:
                bad.append("encoding 0x%08x: arm32.py UNDEFINED (%s), llvm-mc %r" % (w, d[2][1], theirs))
            continue
        if d[3] is None:
            unmodelled += 1  # valid, not rendered (and for K_UNSUP not executed either)
            continue
        n += 1
        if normalise(d[3]) != normalise(theirs):
            bad.append("encoding 0x%08x: arm32.py %r, llvm-mc %r" % (w, d[3], theirs))
    return {"compared": n, "unmodelled": unmodelled, "unpredictable": unpred, "mismatches": bad}


# ---------------------------------------------------------------------------
# a small reader for ELF32 little-endian relocatable files with SHT_REL relocations (ELF for the ARM Architecture,
# IHI 0044) and a static linker for them: the image has no ARM linker

SHT_PROGBITS, SHT_SYMTAB, SHT_NOBITS, SHT_REL = 1, 2, 8, 9
SHF_ALLOC = 2
SHN_ABS = 0xFFF1
R_ARM_NONE, R_ARM_ABS32, R_ARM_REL32, R_ARM_CALL, R_ARM_JUMP24, R_ARM_TARGET1, R_ARM_V4BX, R_ARM_PREL31 = 0, 2, 3, 28, 29, 38, 40, 42
R_ARM_MOVW_ABS_NC, R_ARM_MOVT_ABS = 43, 44


class LinkError(Exception):
    pass


def read_elf32_rel(data):
    """-> (sections [dict(name, type, flags, addralign, size, data, link, info)], symbols [dict(name, value, shndx)],
    relocations [dict(section, offset, sym, type)])"""
    if data[:7] != b"\x7fELF\x01\x01\x01":
        raise LinkError("not an ELF32 little-endian file")
    e_type, e_machine = struct.unpack_from("<HH", data, 16)
    if e_machine != 40 or e_type != 1:
        raise LinkError("not a relocatable ARM file (machine %d type %d)" % (e_machine, e_type))
    e_shoff, = struct.unpack_from("<I", data, 32)
    e_shentsize, e_shnum, e_shstrndx = struct.unpack_from("<HHH", data, 46)
    secs = []
    for i in range(e_shnum):
        n, t, fl, _addr, off, size, link, info, al, ent = struct.unpack_from("<10I", data, e_shoff + i * e_shentsize)
        secs.append({"name_off": n, "type": t, "flags": fl, "offset": off, "size": size, "link": link, "info": info, "addralign": al, "entsize": ent, "data": b"" if t == SHT_NOBITS else data[off : off + size]})

    def cstr(tab, off):
        return tab[off : tab.index(b"\0", off)].decode("latin-1")

    shstr = secs[e_shstrndx]["data"]
    for s in secs:
        s["name"] = cstr(shstr, s["name_off"])
    syms, relocs = [], []
    for s in secs:
        if s["type"] == SHT_SYMTAB:
            strtab = secs[s["link"]]["data"]
            for k in range(s["size"] // 16):
                st_name, st_value, _sz, st_info, _other, st_shndx = struct.unpack_from("<IIIBBH", s["data"], 16 * k)
                syms.append({"name": cstr(strtab, st_name), "value": st_value, "shndx": st_shndx, "type": st_info & 15})
    for s in secs:
        if s["type"] == SHT_REL:
            for k in range(s["size"] // 8):
                r_offset, r_info = struct.unpack_from("<II", s["data"], 8 * k)
                relocs.append({"section": s["info"], "offset": r_offset, "sym": r_info >> 8, "type": r_info & 0xFF})
    return secs, syms, relocs


def link_elf(data, base=0x10000, extern_base=None):
    """Lay out the SHF_ALLOC PROGBITS/NOBITS sections of one relocatable ARM ELF from `base` and resolve its
    relocations (REL: the addend is in the relocated field).  Undefined symbols get consecutive word addresses from
    `extern_base` (default: 256 bytes behind the image, inside the range of bl; unmapped: meant for Machine.hooks).  Returns (image bytes, {symbol: address}, base, {undefined symbol: address})."""
    secs, syms, relocs = read_elf32_rel(data)
    addr = base
    place = {}
    for i, s in enumerate(secs):
        if s["flags"] & SHF_ALLOC and s["type"] in (SHT_PROGBITS, SHT_NOBITS):
            al = max(1, s["addralign"])
            addr = (addr + al - 1) // al * al
            place[i] = addr
            addr += s["size"]
    image = bytearray(addr - base)
    if extern_base is None:
        extern_base = (addr + 0x100 + 15) & ~15
    for i, a in place.items():
        if secs[i]["type"] == SHT_PROGBITS:
            image[a - base : a - base + secs[i]["size"]] = secs[i]["data"]
    symaddr, symbols, externs = [], {}, {}
    for y in syms:
        if y["shndx"] in place:
            v = place[y["shndx"]] + y["value"]
        elif y["shndx"] == SHN_ABS:
            v = y["value"]
        elif y["shndx"] == 0 and y["name"]:
            v = externs.setdefault(y["name"], extern_base + 4 * len(externs))
        else:
            v = None
        symaddr.append(v)
        if v is not None and y["name"] and not y["name"].startswith("$"):
            symbols[y["name"]] = v
    for r in relocs:
        if r["section"] not in place or r["type"] in (R_ARM_NONE, R_ARM_V4BX):
            continue
        P = place[r["section"]] + r["offset"]
        o = P - base
        S = symaddr[r["sym"]]
        if S is None:
            raise LinkError("relocation against symbol %d without an address" % r["sym"])
        w = int.from_bytes(image[o : o + 4], "little")
        t = r["type"]
        if t in (R_ARM_ABS32, R_ARM_TARGET1):
            w = (S + w) & M32
        elif t == R_ARM_REL32:
            w = (S + w - P) & M32
        elif t == R_ARM_PREL31:
            w = (w & 0x80000000) | ((S + _sx(w, 31) - P) & 0x7FFFFFFF)
        elif t in (R_ARM_CALL, R_ARM_JUMP24):
            x = S + _sx(w & 0xFFFFFF, 24) * 4 - P
            if x & 3 or not -(1 << 25) <= x < (1 << 25):
                raise LinkError("branch to %#x from %#x out of range / to Thumb" % (S, P))
            w = (w & 0xFF000000) | ((x >> 2) & 0xFFFFFF)
        elif t in (R_ARM_MOVW_ABS_NC, R_ARM_MOVT_ABS):
            x = S + _sx(((w >> 16) & 15) << 12 | (w & 0xFFF), 16)
            if t == R_ARM_MOVT_ABS:
                x >>= 16
            w = (w & 0xFFF0F000) | ((x >> 12) & 15) << 16 | (x & 0xFFF)
        else:
            raise LinkError("relocation type %d not handled" % t)
        image[o : o + 4] = w.to_bytes(4, "little")
    return bytes(image), symbols, base, externs


# ---------------------------------------------------------------------------
# run-time helpers of the ARM EABI (IHI 0043, run-time ABI 4.3): host functions for Machine.hooks


def _h_uidiv(m):
    a, b = m.regs[0], m.regs[1]
    q = a // b if b else 0
    m.regs[0], m.regs[1] = q, (a - q * b) & M32


def _h_idiv(m):
    a, b = _s32(m.regs[0]), _s32(m.regs[1])
    if b == 0:
        q = 0
    else:
        q = abs(a) // abs(b)
        q = -q if (a < 0) != (b < 0) else q
    m.regs[0], m.regs[1] = q & M32, (a - q * b) & M32


def _h_uldivmod(m):
    a, b = m.regs[0] | m.regs[1] << 32, m.regs[2] | m.regs[3] << 32
    q = a // b if b else 0
    r = a - q * b
    m.regs[0], m.regs[1], m.regs[2], m.regs[3] = q & M32, q >> 32, r & M32, r >> 32


def _h_ldivmod(m):
    a, b = _sx(m.regs[0] | m.regs[1] << 32, 64), _sx(m.regs[2] | m.regs[3] << 32, 64)
    if b == 0:
        q = 0
    else:
        q = abs(a) // abs(b)
        q = -q if (a < 0) != (b < 0) else q
    r = a - q * b
    q &= (1 << 64) - 1
    r &= (1 << 64) - 1
    m.regs[0], m.regs[1], m.regs[2], m.regs[3] = q & M32, q >> 32, r & M32, r >> 32


def _h_memcpy(m):
    m.write(m.regs[0], m.read(m.regs[1], m.regs[2]))


def _h_memset(m):  # __aeabi_memset(dest, n, c)
    m.write(m.regs[0], bytes([m.regs[2] & 0xFF]) * m.regs[1])


def _h_memclr(m):
    m.write(m.regs[0], bytes(m.regs[1]))


def _h_lshift(kind):
    def f(m):
        v = m.regs[0] | m.regs[1] << 32
        n = m.regs[2] & 63
        if kind == "llsl":
            v = (v << n) & ((1 << 64) - 1)
        elif kind == "llsr":
            v >>= n
        else:
            v = (_sx(v, 64) >> n) & ((1 << 64) - 1)
        m.regs[0], m.regs[1] = v & M32, v >> 32

    return f


AEABI_HOOKS = {
    "__aeabi_uidiv": _h_uidiv, "__aeabi_uidivmod": _h_uidiv, "__aeabi_idiv": _h_idiv, "__aeabi_idivmod": _h_idiv,
    "__aeabi_uldivmod": _h_uldivmod, "__aeabi_ldivmod": _h_ldivmod,
    "__aeabi_memcpy": _h_memcpy, "__aeabi_memcpy4": _h_memcpy, "__aeabi_memcpy8": _h_memcpy,
    "__aeabi_memmove": _h_memcpy, "__aeabi_memmove4": _h_memcpy, "__aeabi_memmove8": _h_memcpy,
    "__aeabi_memset": _h_memset, "__aeabi_memset4": _h_memset, "__aeabi_memset8": _h_memset,
    "__aeabi_memclr": _h_memclr, "__aeabi_memclr4": _h_memclr, "__aeabi_memclr8": _h_memclr,
    "__aeabi_llsl": _h_lshift("llsl"), "__aeabi_llsr": _h_lshift("llsr"), "__aeabi_lasr": _h_lshift("lasr"),
}  # fmt: skip


def install_externs(m, externs, extra=None):
    """Hook every undefined symbol of a linked object; unknown ones raise Unsupported when they are called."""
    table = dict(AEABI_HOOKS)
    table.update(extra or {})
    for name, addr in externs.items():
        if name in table:
            m.hooks[addr] = table[name]
        else:

            def missing(mm, name=name):
                raise Unsupported("call of the external function %s, which has no host model" % name)

            m.hooks[addr] = missing


# ---------------------------------------------------------------------------
# (b) semantic validation: clang-compiled C on the emulator vs the same C compiled natively with gcc.  The portable
# corpus (fixed kernels + generated expression functions + argument vectors + native driver) is the one of vf/rv32.py;
# the functions below add what makes clang pick ARM-specific instructions.

CORPUS_ARM = r"""
struct BF { u32 a : 5; s32 b : 7; u32 c : 11; s32 d : 9; };
static NI u32 bf_use(struct BF *p) { return p->a + (u32)p->b * 3 + p->c * 5 + (u32)p->d * 7; }
u32 a_bitfield(u32 a, u32 b, u32 c, u32 d) { struct BF f; f.a = a; f.b = (s32)b; f.c = c; f.d = (s32)d; u32 r = bf_use(&f); f.c = a ^ b; f.b = (s32)(c + d); return r ^ bf_use(&f) ^ ((a >> 7) & 0x1ff) ^ (u32)(((s32)(b << 9)) >> 20); }
u32 a_bits(u32 a, u32 b, u32 c, u32 d) { return (u32)__builtin_clz(a | 1) + ((u32)__builtin_ctz(b | 0x80000000u) << 6) + (__builtin_bswap32(c) ^ (u32)__builtin_bswap16((u16)d)) + (u32)__builtin_popcount(a ^ d); }
u32 a_sat(u32 a, u32 b, u32 c, u32 d) { s32 x = (s32)a, y = (s32)b; s32 p = x > 127 ? 127 : x < -128 ? -128 : x; s32 q = y > 65535 ? 65535 : y < 0 ? 0 : y; s32 r = (s32)c > 32767 ? 32767 : (s32)c < -32768 ? -32768 : (s32)c; return (u32)p + (u32)q * 3 + (u32)r * 5 + (d > 255 ? 255 : d); }
u32 a_mac(u32 a, u32 b, u32 c, u32 d) { s16 x = (s16)a, y = (s16)b, z = (s16)(c >> 16), w = (s16)(d >> 16); s32 acc = (s32)(c & 0xffff); acc += x * y; acc += z * w; acc += x * w; s64 wide = (s64)(s32)a * (s32)b; u64 uw = (u64)c * d + a; s64 sacc = (s64)(s32)c * (s32)d + (s64)(s32)b; return (u32)acc ^ (u32)((u64)wide >> 32) ^ (u32)(uw >> 32) ^ (u32)uw ^ (u32)((u64)sacc >> 32) ^ (u32)(((s64)(s32)a * (s32)d) >> 16); }
u32 a_cond(u32 a, u32 b, u32 c, u32 d) { u32 r = 0; if (a < b) r += c; else r -= d; if ((s32)a < (s32)b) r ^= 0x55; if (a == c) r += 1000; if (b != d) r <<= 1; if ((s32)c >= (s32)d) r |= 0x80000000u; if (c > d) r += a >> 3; if ((s32)c <= 0) r += 77; if ((s32)(a + b) < 0) r ^= b; if (a <= d) r += 3; return r; }
struct W5 { u32 w[5]; u64 q[2]; };
static NI u32 w5_sum(struct W5 *p) { return p->w[0] + p->w[1] * 3 + p->w[2] * 5 + p->w[3] * 7 + p->w[4] * 11 + (u32)(p->q[0] >> 13) + (u32)(p->q[1] >> 33); }
u32 a_blocks(u32 a, u32 b, u32 c, u32 d) { struct W5 x, y; for (int i = 0; i < 5; i++) x.w[i] = a + (u32)i * b; x.q[0] = ((u64)c << 32) | d; x.q[1] = (u64)a * d; y = x; y.w[2] ^= c; y.q[1] += x.q[0]; return w5_sum(&x) ^ w5_sum(&y); }
u32 a_ext(u32 a, u32 b, u32 c, u32 d) { return (u32)(u8)(a >> 8) + (u32)(s32)(s8)(b >> 16) + (u32)(u16)(c >> 8) + (u32)(s32)(s16)(d >> 16) + ((u32)(s32)(s8)(a >> 24) + b) + ((u32)(u8)c + d) + ((u32)(u16)(a >> 16) + c); }
u64 aq_shift(u64 a, u64 b) { return (a << (b & 63)) + (a >> ((b >> 8) & 63)) + (u64)((s64)a >> ((b >> 16) & 63)) + ((a << 5) | (a >> 59)) + (b >> 32) * (a & 0xffffffffu); }
u32 a_div(u32 a, u32 b, u32 c, u32 d) { u32 r = a / (b | 1) + a % (b | 1); s32 y = (s32)(d & 0x7fffffffu) | 1; r += (u32)((s32)c / y) * 3 + (u32)((s32)c % y); return r + a / 10 + (u32)((s32)c / 7) + b % 1000; }
u32 a_table(u32 a, u32 b, u32 c, u32 d) { u32 r = d; for (u32 i = 0; i < 4; i++) { switch ((a >> (i * 4)) & 15) { case 0: r += b; break; case 1: r ^= c; break; case 2: r *= 3; break; case 3: r -= b >> 2; break; case 4: r |= c << 3; break; case 5: r &= ~b; break; case 6: r += i; break; case 7: r = (r << 7) | (r >> 25); break; case 8: r ^= r >> 5; break; case 9: r += c * i; break; default: r += 13; } } return r; }
static u8 bytes[40];
u32 a_mem(u32 a, u32 b, u32 c, u32 d) { for (u32 i = 0; i < 40; i++) bytes[i] = (u8)(a + i * b); u16 *h = (u16 *)(bytes + 2 * (c % 8)); s16 *sh = (s16 *)(bytes + 2 * (d % 8)); u32 *w = (u32 *)(bytes + 4 * (c % 5)); s8 *sb = (s8 *)bytes; u32 r = h[a % 4] + (u32)sh[b % 4] + w[d % 4] + (u32)sb[c % 40]; h[1] = (u16)d; w[2] += r; return r ^ w[b % 5] ^ bytes[d % 40]; }
"""
_ARM_FUNCS = {"u4": ["a_bitfield", "a_bits", "a_sat", "a_mac", "a_cond", "a_blocks", "a_ext", "a_div", "a_table", "a_mem"], "q2": ["aq_shift"]}

CLANG_FLAGS = ["--target=armv7a-none-eabi", "-marm", "-ffreestanding", "-mfloat-abi=soft", "-fno-builtin", "-c"]


def _rv():
    from . import rv32

    return rv32


def _run(cmd, **kw):
    p = subprocess.run(cmd, capture_output=True, **kw)
    if p.returncode != 0:
        raise RuntimeError("%s failed: %s" % (" ".join(cmd[:3]), p.stderr.decode("latin-1")[:800]))
    return p


def _new_machine(image, base, externs):
    m = Machine(step_limit=3_000_000)
    m.load(image, base)
    m.map_stack()
    install_externs(m, externs)
    return m


def _emu_call(m, symbols, kind, fname, args):
    rv = _rv()
    if kind == "buf":
        n, x, seed = args
        baddr = 0x800000
        if not any(r[3] == "buf" for r in m.regions):
            m.map(baddr, 64, name="buf")
        m.write(baddr, rv._buf_init(seed))
        r = m.call(symbols[fname], [baddr, n, x])
        return "%08x %s" % (r, m.read(baddr, 64).hex())
    types, rt = rv._KIND_SIG[kind]
    m.call(symbols[fname], [a if t == "u32" else ("i64", a) for t, a in zip(types, args)])
    return ("%08x" % m.regs[0]) if rt == "u32" else ("%016x" % m.ret64())


# ---------------------------------------------------------------------------
# (c) hand vectors from the ARM ARM (assembled by llvm-mc)

ASM_VECTORS = r"""
    .syntax unified
    .arm
    .text
.macro FN name
    .globl \name
    .p2align 2
\name:
.endm
@ r0, r1 operands; r2 = NZCV nibble to start from.  Result: (value << 4 | NZCV nibble afterwards) mod 2^32
.macro FLAGS_IN
    lsl r2, r2, #28
    msr APSR_nzcvq, r2
.endm
.macro RET_FLAGS reg
    mrs r12, apsr
    lsr r12, r12, #28
    orr r0, r12, \reg, lsl #4
    bx lr
.endm
.macro ARITH name, ins
FN \name
    FLAGS_IN
    \ins r3, r0, r1
    RET_FLAGS r3
.endm
    ARITH v_adds, adds
    ARITH v_subs, subs
    ARITH v_rsbs, rsbs
    ARITH v_adcs, adcs
    ARITH v_sbcs, sbcs
    ARITH v_rscs, rscs
    ARITH v_ands, ands
    ARITH v_eors, eors
    ARITH v_orrs, orrs
    ARITH v_bics, bics
    ARITH v_muls, muls
    ARITH v_add, add
FN v_cmn
    FLAGS_IN
    mov r3, #0
    cmn r0, r1
    RET_FLAGS r3
FN v_cmp
    FLAGS_IN
    mov r3, #0
    cmp r0, r1
    RET_FLAGS r3
FN v_tst
    FLAGS_IN
    mov r3, #0
    tst r0, r1, lsl #1
    RET_FLAGS r3
FN v_teq
    FLAGS_IN
    mov r3, #0
    teq r0, r1, lsr #1
    RET_FLAGS r3
@ shifts by an immediate amount: r0 operand, r2 flags in
.macro SHI name, sh
FN \name
    FLAGS_IN
    movs r3, r0, \sh
    RET_FLAGS r3
.endm
    SHI v_lsl1, "lsl #1"
    SHI v_lsl31, "lsl #31"
    SHI v_lsr1, "lsr #1"
    SHI v_lsr32, "lsr #32"
    SHI v_asr1, "asr #1"
    SHI v_asr32, "asr #32"
    SHI v_ror1, "ror #1"
    SHI v_ror31, "ror #31"
    SHI v_rrx, "rrx"
    SHI v_lsl0, "lsl #0"
@ shifts by a register amount: r0 operand, r1 amount, r2 flags in
.macro SHR name, sh
FN \name
    FLAGS_IN
    movs r3, r0, \sh r1
    RET_FLAGS r3
.endm
    SHR v_lslr, lsl
    SHR v_lsrr, lsr
    SHR v_asrr, asr
    SHR v_rorr, ror
@ the shifter operand of an arithmetic instruction does not touch C
FN v_addsh
    FLAGS_IN
    adds r3, r0, r1, lsr #1
    RET_FLAGS r3
@ modified immediates: carry out = bit 31 of the constant when the rotation is not zero, else unchanged
FN v_imm_rot
    FLAGS_IN
    movs r3, #0x80000000
    RET_FLAGS r3
FN v_imm_norot
    FLAGS_IN
    movs r3, #0xff
    RET_FLAGS r3
FN v_imm_rot0x200
    FLAGS_IN
    movs r3, #0x200
    RET_FLAGS r3
FN v_imm_noncanon
    FLAGS_IN
    .inst 0xe3b03108        @ movs r3, #8, #2   = 2 with a non-zero rotation: C := 0
    RET_FLAGS r3
FN v_imm_and
    FLAGS_IN
    ands r3, r0, #0xc000003f
    RET_FLAGS r3
FN v_mvn
    FLAGS_IN
    mvns r3, r0, lsl #4
    RET_FLAGS r3
@ all conditions: r0 = NZCV nibble; result bit i = condition i passes
FN v_cond
    lsl r0, r0, #28
    msr APSR_nzcvq, r0
    mov r0, #0
    orreq r0, r0, #1
    orrne r0, r0, #2
    orrhs r0, r0, #4
    orrlo r0, r0, #8
    orrmi r0, r0, #0x10
    orrpl r0, r0, #0x20
    orrvs r0, r0, #0x40
    orrvc r0, r0, #0x80
    orrhi r0, r0, #0x100
    orrls r0, r0, #0x200
    orrge r0, r0, #0x400
    orrlt r0, r0, #0x800
    orrgt r0, r0, #0x1000
    orrle r0, r0, #0x2000
    bx lr
FN v_condskip
    mov r2, #1
    cmp r0, #0
    ldrne r0, [r2]
    strne r0, [r2]
    moveq r0, #9
    bx lr
FN v_sdiv
    sdiv r0, r0, r1
    bx lr
FN v_udiv
    udiv r0, r0, r1
    bx lr
FN v_mls
    mov r2, #100
    mls r0, r0, r1, r2
    bx lr
FN v_pc
    mov r0, pc
    sub r0, r0, pc
    bx lr
FN v_pcstr
    str pc, [sp, #-4]!
    ldr r0, [sp], #4
    sub r0, r0, pc
    bx lr
FN v_pcadd
    add r0, pc, #4          @ A:    r0 = A + 12
    ldr r1, [pc, #8]        @ A+4:  word at A + 12 + 8
    sub r0, r0, pc          @ A+8:  (A + 12) - (A + 16) = -4
    eor r0, r0, r1
    bx lr
    .word 0x12345678        @ A+20
FN v_pcneg
    b 1f                    @ A
    .word 0xcafef00d        @ A+4
1:  ldr r0, [pc, #-12]      @ A+8:  (A + 16) - 12 = A + 4
    bx lr
FN v_stm
    sub sp, sp, #32
    mov r1, #1
    mov r2, #2
    mov r3, #3
    stm sp, {r1, r2, r3}
    ldr r0, [sp, #8]
    ldmib sp, {r1, r2}
    add r0, r0, r1, lsl #4
    add r0, r0, r2, lsl #8
    add sp, sp, #32
    bx lr
FN v_stmdb
    mov r12, sp
    mov r1, #0x11
    mov r2, #0x22
    stmdb r12!, {r1, r2}
    sub r0, sp, r12
    ldm r12!, {r2, r3}
    sub r1, r12, sp
    add r0, r0, r1
    add r0, r0, r2, lsl #8
    add r0, r0, r3, lsl #16
    bx lr
FN v_stmda
    sub r12, sp, #4
    mov r1, #0x33
    mov r2, #0x44
    stmda r12!, {r1, r2}
    ldr r0, [sp, #-8]
    ldr r3, [sp, #-4]
    add r0, r0, r3, lsl #8
    ldmib r12!, {r2, r3}
    add r0, r0, r2, lsl #16
    add r0, r0, r3, lsl #24
    sub r1, sp, r12
    add r0, r0, r1
    bx lr
FN v_ldmda
    sub sp, sp, #16
    mov r1, #5
    mov r2, #6
    mov r3, #7
    stm sp, {r1, r2, r3}
    add r12, sp, #8
    ldmda r12, {r1, r2}
    ldmdb r12!, {r0, r3}
    add r0, r0, r1, lsl #4
    add r0, r0, r2, lsl #8
    add r0, r0, r3, lsl #12
    sub r1, r12, sp
    add r0, r0, r1, lsl #16
    add sp, sp, #16
    bx lr
FN v_index
    sub sp, sp, #16
    mov r1, #0x55
    mov r12, sp
    str r1, [r12, #4]!
    sub r0, r12, sp
    ldr r2, [r12], #-4
    sub r3, r12, sp
    add r0, r0, r3, lsl #4
    add r0, r0, r2, lsl #8
    mov r3, #1
    ldr r2, [sp, r3, lsl #2]
    add r0, r0, r2, lsl #16
    add r12, sp, #8
    ldrb r2, [r12, -r3, lsl #2]!
    add r0, r0, r2, lsl #24
    add sp, sp, #16
    bx lr
FN v_unaligned
    sub sp, sp, #16
    movw r1, #0x3344
    movt r1, #0x1122
    movw r2, #0x7788
    movt r2, #0x5566
    str r1, [sp]
    str r2, [sp, #4]
    ldr r0, [sp, #1]
    ldrh r3, [sp, #3]
    add r0, r0, r3
    str r0, [sp, #9]
    ldr r3, [sp, #9]
    sub r3, r3, r0
    add r0, r0, r3
    add sp, sp, #16
    bx lr
FN v_signext
    sub sp, sp, #16
    movw r1, #0xf0ff
    movt r1, #0x8081
    str r1, [sp]
    ldrsb r0, [sp]
    ldrb r1, [sp, #1]
    ldrsh r2, [sp, #2]
    ldrh r3, [sp, #2]
    add r0, r0, r1
    add r0, r0, r2
    add r0, r0, r3
    mov r1, #2
    ldrsh r2, [sp, r1]
    sub r0, r0, r2
    ldrsb r2, [sp, r1]
    add r0, r0, r2
    add sp, sp, #16
    bx lr
FN v_ldrd
    sub sp, sp, #16
    mov r2, r0
    mov r3, r1
    strd r2, r3, [sp, #8]
    ldrd r0, r1, [sp, #8]
    mov r12, #8
    ldrd r2, r3, [sp, r12]
    eor r0, r0, r3
    eor r0, r0, r1, ror #8
    eor r0, r0, r2, ror #16
    add sp, sp, #16
    bx lr
FN v_ssat
    ssat r0, #8, r0
    mrs r1, apsr
    and r1, r1, #0x08000000
    orr r0, r1, r0, lsr #4
    bx lr
FN v_usat
    usat r0, #8, r0
    bx lr
FN v_ssat_sh
    ssat r0, #16, r0, asr #4
    bx lr
FN v_movt
    movt r0, #0xabcd
    bx lr
FN v_movw
    movw r0, #0xffff
    bx lr
FN v_umaal
    mvn r2, #0
    mvn r3, #0
    umaal r0, r1, r2, r3
    eor r0, r0, r1, lsr #1
    bx lr
FN v_umlal
    mov r2, r0
    mov r3, r1
    mvn r0, #0
    mov r1, #1
    umlal r0, r1, r2, r3
    eor r0, r0, r1
    bx lr
FN v_smlal
    mov r2, r0
    mov r3, r1
    mov r0, #5
    mov r1, #0
    smlal r0, r1, r2, r3
    eor r0, r0, r1
    bx lr
FN v_smull
    smull r2, r3, r0, r1
    eor r0, r2, r3
    bx lr
FN v_smulbt
    smulbt r0, r0, r1
    bx lr
FN v_smlatb
    mov r2, #1000
    smlatb r0, r0, r1, r2
    bx lr
FN v_smulwb
    smulwb r0, r0, r1
    bx lr
FN v_smmul
    smmul r0, r0, r1
    bx lr
FN v_smmulr
    smmulr r0, r0, r1
    bx lr
FN v_blx
    mov r12, lr
    adr r1, 2f
    blx r1
1:  mov lr, r12
    bx lr
2:  adr r2, 1b
    sub r0, lr, r2
    add r0, r0, #7
    bx lr
FN v_bl
    mov r12, lr
    bl 2f
1:  mov lr, r12
    bx lr
2:  adr r2, 1b
    sub r0, lr, r2
    add r0, r0, #11
    mov pc, lr
FN v_ldrpc
    adr r1, 3f
    ldr pc, [r1]
    mov r0, #1
    bx lr
2:  mov r0, #2
    bx lr
3:  .word 2b
FN v_addpc
    add pc, pc, r0, lsl #2
    mov r0, #0xee
    mov r0, #10
    bx lr
    mov r0, #11
    bx lr
FN v_clz
    clz r0, r0
    bx lr
FN v_rbit
    rbit r0, r0
    bx lr
FN v_rev
    rev r0, r0
    bx lr
FN v_rev16
    rev16 r0, r0
    bx lr
FN v_revsh
    revsh r0, r0
    bx lr
FN v_ubfx
    ubfx r0, r0, #4, #8
    bx lr
FN v_sbfx
    sbfx r0, r0, #4, #8
    bx lr
FN v_bfi
    bfi r0, r1, #8, #4
    bx lr
FN v_bfc
    bfc r0, #4, #24
    bx lr
FN v_uxtab
    uxtab r0, r1, r0, ror #8
    bx lr
FN v_sxtah
    sxtah r0, r1, r0, ror #16
    bx lr
FN v_sxtb
    sxtb r0, r0, ror #24
    bx lr
FN v_uxth
    uxth r0, r0, ror #8
    bx lr
FN v_mrs
    lsl r0, r0, #28
    msr APSR_nzcvq, r0
    msr APSR_nzcvq, #0x50000000
    mrs r0, apsr
    bx lr
FN v_nop
    nop
    dmb ish
    dsb sy
    isb sy
    pld [sp]
    yield
    mov r0, #5
    bx lr
FN v_strb
    sub sp, sp, #8
    mvn r2, #0
    str r2, [sp]
    strb r0, [sp, #1]
    strh r1, [sp, #2]
    ldr r0, [sp]
    add sp, sp, #8
    bx lr
"""


def _nzcv(n, z, c, v):
    return n << 3 | z << 2 | c << 1 | v


def _cond_table(f):
    """The 14 conditions of table A8-1 written out, for flags nibble f: bit i of the result = condition i holds."""
    n, z, c, v = (f >> 3) & 1, (f >> 2) & 1, (f >> 1) & 1, f & 1
    conds = [z == 1, z == 0, c == 1, c == 0, n == 1, n == 0, v == 1, v == 0, c == 1 and z == 0, c == 0 or z == 1,
             n == v, n != v, z == 0 and n == v, z == 1 or n != v]  # fmt: skip
    return sum(1 << i for i, t in enumerate(conds) if t)


def _fr(value, flags):
    return ((value << 4) | flags) & M32


# (function, (r0, r1, r2), expected r0), worked out by hand from the pseudo-code of the manual
_ASM_EXPECT = [
    # AddWithCarry: N Z C V
    ("v_adds", (0x7FFFFFFF, 1, 0), _fr(0x80000000, 0b1001)), ("v_adds", (0xFFFFFFFF, 1, 0), _fr(0, 0b0110)),
    ("v_adds", (0x80000000, 0x80000000, 0), _fr(0, 0b0111)), ("v_adds", (1, 2, 0b1111), _fr(3, 0)),
    ("v_subs", (5, 5, 0), _fr(0, 0b0110)), ("v_subs", (0, 1, 0), _fr(0xFFFFFFFF, 0b1000)),
    ("v_subs", (0x80000000, 1, 0), _fr(0x7FFFFFFF, 0b0011)), ("v_subs", (5, 3, 0), _fr(2, 0b0010)),
    ("v_rsbs", (3, 5, 0), _fr(2, 0b0010)), ("v_rsbs", (5, 3, 0), _fr(0xFFFFFFFE, 0b1000)),
    ("v_adcs", (0xFFFFFFFF, 0, 0b0010), _fr(0, 0b0110)), ("v_adcs", (1, 1, 0b0010), _fr(3, 0)), ("v_adcs", (1, 1, 0), _fr(2, 0)),
    ("v_adcs", (0x7FFFFFFF, 0, 0b0010), _fr(0x80000000, 0b1001)),
    ("v_sbcs", (5, 3, 0), _fr(1, 0b0010)), ("v_sbcs", (0, 0, 0), _fr(0xFFFFFFFF, 0b1000)), ("v_sbcs", (0, 0, 0b0010), _fr(0, 0b0110)),
    ("v_sbcs", (0x80000000, 0, 0), _fr(0x7FFFFFFF, 0b0011)),
    ("v_rscs", (3, 5, 0b0010), _fr(2, 0b0010)), ("v_rscs", (3, 5, 0), _fr(1, 0b0010)),
    ("v_cmn", (0xFFFFFFFF, 1, 0), 0b0110), ("v_cmn", (0x7FFFFFFF, 1, 0), 0b1001), ("v_cmp", (0, 1, 0), 0b1000), ("v_cmp", (7, 7, 0b0001), 0b0110),
    # logical operations: N Z from the result, C from the shifter (unchanged without a shift), V unchanged
    ("v_ands", (0xF0, 0x0F, 0b0011), _fr(0, 0b0111)), ("v_ands", (0x80000000, 0xFFFFFFFF, 0b0001), _fr(0x80000000, 0b1001)),
    ("v_eors", (5, 5, 0b0010), _fr(0, 0b0110)), ("v_orrs", (0, 0x80000000, 0), _fr(0x80000000, 0b1000)), ("v_bics", (0xFF, 0x0F, 0b0011), _fr(0xF0, 0b0011)),
    ("v_muls", (0, 5, 0b0011), _fr(0, 0b0111)), ("v_muls", (0xFFFFFFFF, 1, 0b0011), _fr(0xFFFFFFFF, 0b1011)),
    ("v_add", (0xFFFFFFFF, 1, 0b1010), _fr(0, 0b1010)),
    ("v_tst", (1, 0x80000000, 0), 0b0110), ("v_tst", (2, 1, 0b0011), 0b0001), ("v_teq", (1, 3, 0b0000), 0b0110), ("v_teq", (0x80000000, 0, 0b0010), 0b1000),
    # Shift_C, immediate amounts
    ("v_lsl1", (0x80000001, 0, 0), _fr(2, 0b0010)), ("v_lsl1", (0x40000000, 0, 0b0011), _fr(0x80000000, 0b1001)),
    ("v_lsl31", (3, 0, 0), _fr(0x80000000, 0b1010)), ("v_lsr1", (3, 0, 0), _fr(1, 0b0010)), ("v_lsr1", (2, 0, 0b0010), _fr(1, 0)),
    ("v_lsr32", (0x80000000, 0, 0), _fr(0, 0b0110)), ("v_lsr32", (0x80000000, 0, 0b0001), _fr(0, 0b0111)), ("v_lsr32", (0x7FFFFFFF, 0, 0b0010), _fr(0, 0b0100)),
    ("v_asr1", (0x80000001, 0, 0), _fr(0xC0000000, 0b1010)), ("v_asr32", (0x80000000, 0, 0), _fr(0xFFFFFFFF, 0b1010)), ("v_asr32", (0x7FFFFFFF, 0, 0b0010), _fr(0, 0b0100)),
    ("v_ror1", (1, 0, 0), _fr(0x80000000, 0b1010)), ("v_ror31", (1, 0, 0b0010), _fr(2, 0)), ("v_ror31", (0x80000000, 0, 0), _fr(1, 0)),
    ("v_rrx", (1, 0, 0b0010), _fr(0x80000000, 0b1010)), ("v_rrx", (2, 0, 0), _fr(1, 0)), ("v_rrx", (3, 0, 0), _fr(1, 0b0010)),
    ("v_lsl0", (0, 0, 0b0010), _fr(0, 0b0110)), ("v_lsl0", (0, 0, 0), _fr(0, 0b0100)),
    # Shift_C, register amounts (bits 7:0): 0 leaves C alone, 32 shifts out the last bit, > 32 clears
    ("v_lslr", (1, 32, 0), _fr(0, 0b0110)), ("v_lslr", (0xFFFFFFFF, 33, 0b0010), _fr(0, 0b0100)), ("v_lslr", (5, 256, 0b0010), _fr(5, 0b0010)),
    ("v_lslr", (5, 0, 0), _fr(5, 0)), ("v_lslr", (1, 31, 0), _fr(0x80000000, 0b1000)), ("v_lslr", (3, 31, 0), _fr(0x80000000, 0b1010)), ("v_lslr", (1, 0x120, 0), _fr(0, 0b0110)),
    ("v_lsrr", (0x80000000, 32, 0), _fr(0, 0b0110)), ("v_lsrr", (0x80000000, 33, 0b0010), _fr(0, 0b0100)), ("v_lsrr", (0x80000000, 31, 0), _fr(1, 0)),
    ("v_lsrr", (0xC0000000, 31, 0), _fr(1, 0b0010)), ("v_lsrr", (7, 0, 0b0010), _fr(7, 0b0010)), ("v_lsrr", (0xFFFFFFFF, 255, 0b0010), _fr(0, 0b0100)),
    ("v_asrr", (0x80000000, 40, 0), _fr(0xFFFFFFFF, 0b1010)), ("v_asrr", (0x7FFFFFFF, 255, 0b0010), _fr(0, 0b0100)), ("v_asrr", (0x80000000, 32, 0), _fr(0xFFFFFFFF, 0b1010)),
    ("v_asrr", (0x80000004, 3, 0), _fr(0xF0000000, 0b1010)), ("v_asrr", (9, 0, 0b0010), _fr(9, 0b0010)),
    ("v_rorr", (0x80000001, 32, 0), _fr(0x80000001, 0b1010)), ("v_rorr", (0x80000001, 33, 0), _fr(0xC0000000, 0b1010)), ("v_rorr", (0x80000001, 0, 0), _fr(0x80000001, 0b1000)),
    ("v_rorr", (1, 64, 0b0010), _fr(1, 0)), ("v_rorr", (1, 256, 0b0010), _fr(1, 0b0010)), ("v_rorr", (2, 1, 0b0010), _fr(1, 0)),
    ("v_addsh", (1, 3, 0), _fr(2, 0)), ("v_addsh", (0xFFFFFFFF, 2, 0), _fr(0, 0b0110)),
    # ARMExpandImm_C
    ("v_imm_rot", (0, 0, 0), _fr(0x80000000, 0b1010)), ("v_imm_norot", (0, 0, 0b0010), _fr(0xFF, 0b0010)), ("v_imm_norot", (0, 0, 0), _fr(0xFF, 0)),
    ("v_imm_rot0x200", (0, 0, 0b0010), _fr(0x200, 0)), ("v_imm_noncanon", (0, 0, 0b0010), _fr(2, 0)), ("v_imm_noncanon", (0, 0, 0b0001), _fr(2, 0b0001)),
    ("v_imm_and", (0xFFFFFFFF, 0, 0), _fr(0xC000003F, 0b1010)), ("v_imm_and", (0x3F, 0, 0), _fr(0x3F, 0b0010)),
    ("v_mvn", (0x10000000, 0, 0), _fr(0xFFFFFFFF, 0b1010)), ("v_mvn", (0x0FFFFFFF, 0, 0b0010), _fr(0x0000000F, 0)),
] + [("v_cond", (f, 0, 0), _cond_table(f)) for f in range(16)] + [
    ("v_condskip", (0, 0, 0), 9),
    # A8.8.165 / A8.8.248: division rounds towards zero; by zero gives 0 (no trap in the A profile); INT_MIN / -1 = INT_MIN
    ("v_sdiv", (0x80000000, 0xFFFFFFFF, 0), 0x80000000), ("v_sdiv", (1234, 0, 0), 0), ("v_udiv", (1234, 0, 0), 0), ("v_sdiv", (0xFFFFFFF9, 2, 0), 0xFFFFFFFD),
    ("v_sdiv", (7, 0xFFFFFFFE, 0), 0xFFFFFFFD), ("v_sdiv", (0xFFFFFFF9, 0xFFFFFFFE, 0), 3), ("v_udiv", (0xFFFFFFF9, 2, 0), 0x7FFFFFFC),
    ("v_mls", (7, 9, 0), 37), ("v_mls", (0x10000, 0x10000, 0), 100),
    # the pc reads as the address of the instruction + 8
    ("v_pc", (0, 0, 0), 0xFFFFFFFC), ("v_pcstr", (0, 0, 0), 0xFFFFFFF8), ("v_pcadd", (0, 0, 0), 0xFFFFFFFC ^ 0x12345678), ("v_pcneg", (0, 0, 0), 0xCAFEF00D),
    ("v_stm", (0, 0, 0), 0x323), ("v_stmdb", (0, 0, 0), 8 + 0 + 0x1100 + 0x220000), ("v_stmda", (0, 0, 0), 0x33 + 0x4400 + 0x330000 + 0x44000000 + 4),
    ("v_ldmda", (0, 0, 0), 5 + 0x60 + 0x700 + 0x6000 + 0),
    ("v_index", (0, 0, 0), 4 + 0 + 0x5500 + 0x550000 + 0x55000000),
    ("v_unaligned", (0, 0, 0), (0x88112233 + 0x8811) & M32), ("v_signext", (0, 0, 0), (0xFFFFFFFF + 0xF0 + 0xFFFF8081 + 0x8081 - 0xFFFF8081 + 0xFFFFFF81) & M32),
    ("v_ldrd", (0x11223344, 0x55667788, 0), 0x11223344 ^ 0x55667788 ^ 0x88556677 ^ 0x33441122),
    ("v_ssat", (300, 0, 0), 0x08000000 | (127 >> 4)), ("v_ssat", (0xFFFFFED4, 0, 0), 0x08000000 | (0xFFFFFF80 >> 4)), ("v_ssat", (100, 0, 0), 100 >> 4),
    ("v_usat", (300, 0, 0), 255), ("v_usat", (0xFFFFFFFB, 0, 0), 0), ("v_usat", (77, 0, 0), 77), ("v_ssat_sh", (0x7FFFFFFF, 0, 0), 0x7FFF), ("v_ssat_sh", (0x80000000, 0, 0), 0xFFFF8000), ("v_ssat_sh", (0x1230, 0, 0), 0x123),
    ("v_movt", (0x12345678, 0, 0), 0xABCD5678), ("v_movw", (0x12345678, 0, 0), 0xFFFF),
    # umaal: 0xFFFFFFFF * 0xFFFFFFFF + r0 + r1
    ("v_umaal", (0xFFFFFFFF, 0xFFFFFFFF, 0), 0xFFFFFFFF ^ 0x7FFFFFFF), ("v_umaal", (0, 0, 0), 1 ^ (0xFFFFFFFE >> 1)),
    # umlal: r0 * r1 + 0x1_FFFFFFFF
    ("v_umlal", (2, 3, 0), 5 ^ 2), ("v_umlal", (0xFFFFFFFF, 0xFFFFFFFF, 0), (0 ^ 0) & M32),
    # smlal: r0 * r1 + 5 (signed)
    ("v_smlal", (0xFFFFFFFF, 3, 0), 2 ^ 0), ("v_smlal", (0xFFFFFFFF, 7, 0), 0xFFFFFFFE ^ 0xFFFFFFFF), ("v_smull", (0x80000000, 0x80000000, 0), 0x40000000), ("v_smull", (0xFFFFFFFF, 2, 0), 0xFFFFFFFE ^ 0xFFFFFFFF),
    ("v_smulbt", (0x0000FFFF, 0x00030000, 0), 0xFFFFFFFD), ("v_smulbt", (0x12340002, 0x7FFF0009, 0), 0xFFFE), ("v_smlatb", (0xFFFE0000, 0x00000003, 0), 994),
    ("v_smulwb", (0x00010000, 0x12345678, 0), 0x5678), ("v_smulwb", (0xFFFF0000, 0x00000002, 0), 0xFFFFFFFE), ("v_smulwb", (0x00018000, 0x0000FFFF, 0), 0xFFFFFFFE),
    ("v_smmul", (0x80000000, 0x80000000, 0), 0x40000000), ("v_smmul", (0xFFFFFFFF, 1, 0), 0xFFFFFFFF), ("v_smmulr", (0xFFFFFFFF, 1, 0), 0), ("v_smmulr", (0x00018000, 0x00010000, 0), 2),
    ("v_blx", (0, 0, 0), 7), ("v_bl", (0, 0, 0), 11), ("v_ldrpc", (0, 0, 0), 2), ("v_addpc", (0, 0, 0), 10), ("v_addpc", (2, 0, 0), 11),
    ("v_clz", (0, 0, 0), 32), ("v_clz", (1, 0, 0), 31), ("v_clz", (0x80000000, 0, 0), 0), ("v_rbit", (1, 0, 0), 0x80000000), ("v_rbit", (0x12345678, 0, 0), 0x1E6A2C48),
    ("v_rev", (0x11223344, 0, 0), 0x44332211), ("v_rev16", (0x11223344, 0, 0), 0x22114433), ("v_revsh", (0x1280, 0, 0), 0xFFFF8012), ("v_revsh", (0xFFFF7F01, 0, 0), 0x017F),
    ("v_ubfx", (0xABCD, 0, 0), 0xBC), ("v_sbfx", (0xABCD, 0, 0), 0xFFFFFFBC), ("v_sbfx", (0xA3CD, 0, 0), 0x3C), ("v_bfi", (0xFFFFFFFF, 5, 0), 0xFFFFF5FF), ("v_bfi", (0, 0xFF, 0), 0xF00), ("v_bfc", (0xFFFFFFFF, 0, 0), 0xF000000F),
    ("v_uxtab", (0x12345678, 1000, 0), 1000 + 0x56), ("v_sxtah", (0x80015678, 1000, 0), (1000 + 0xFFFF8001) & M32), ("v_sxtb", (0x80123456, 0, 0), 0xFFFFFF80), ("v_uxth", (0x12345678, 0, 0), 0x3456),
    ("v_mrs", (0b1111, 0, 0), 0x50000000), ("v_nop", (0, 0, 0), 5), ("v_strb", (0x1234, 0x5678ABCD, 0), 0xABCD34FF),
]  # fmt: skip


def run_asm_vectors(tmpdir, res):
    apath = os.path.join(tmpdir, "vec.s")
    with open(apath, "w") as f:
        f.write(ASM_VECTORS)
    aobj = os.path.join(tmpdir, "vec.o")
    _run([llvm_mc(), "-triple=armv7a", "-mattr=+hwdiv-arm", "-filetype=obj", "-o", aobj, apath])
    image, symbols, base, externs = link_elf(open(aobj, "rb").read())
    for fname, args, expect in _ASM_EXPECT:
        m = _new_machine(image, base, externs)
        try:
            got = m.call(symbols[fname], list(args))
        except EmuError as e:
            res["problems"].append("asm vector %s%r: %s" % (fname, args, e))
            continue
        res["executed"] |= m.executed
        res["vectors"] += 1
        if got != expect:
            res["problems"].append("asm vector %s(%s) = %#x, the ARM ARM says %#x" % (fname, ", ".join("%#x" % a for a in args), got, expect))


def validate_semantics(n_generated=24, n_vectors=5, variants=(("-O1",), ("-O1", "-march=armv7ve")), tmpdir=None, seed="arm32-corpus"):
    """Returns dict(calls, vectors, functions, instructions, problems, executed, misaligned)."""
    rv = _rv()
    own = tmpdir is None
    tmpdir = tmpdir or tempfile.mkdtemp(prefix="vf-arm32-")
    res = {"calls": 0, "vectors": 0, "functions": 0, "instructions": 0, "problems": [], "executed": set(), "misaligned": 0}
    try:
        run_asm_vectors(tmpdir, res)
        src, gnames = rv.corpus_source(n_generated, seed)
        src = src + "\n" + CORPUS_ARM
        g = rv._prng(seed + "/vec")
        calls = []
        groups = list(rv._FIXED_FUNCS.items()) + list(_ARM_FUNCS.items()) + [("u4", gnames)]
        for kind, names in groups:
            for fname in names:
                for args in rv._vectors(kind, n_vectors, g):
                    calls.append((kind, fname, args))
        res["functions"] = sum(len(v) for _, v in groups)
        cpath = os.path.join(tmpdir, "corpus.c")
        with open(cpath, "w") as f:
            f.write(src)
        dpath = os.path.join(tmpdir, "driver.c")
        with open(dpath, "w") as f:
            f.write(src + "\n" + rv._native_driver(calls))
        exe = os.path.join(tmpdir, "driver")
        _run(["gcc", "-O1", "-fno-builtin", "-fno-strict-aliasing", "-w", "-o", exe, dpath])
        native = _run([exe]).stdout.decode().split("\n")
        stateful = ("k_tab", "a_mem")  # mutate globals: natively all calls share one process, so they share one machine here
        for k, flags in enumerate(variants):
            obj = os.path.join(tmpdir, "corpus%d.o" % k)
            _run(["clang"] + CLANG_FLAGS + list(flags) + ["-fno-strict-aliasing", "-w", "-o", obj, cpath])
            image, symbols, base, externs = link_elf(open(obj, "rb").read())
            shared = _new_machine(image, base, externs)
            tag = " ".join(flags)
            for (kind, fname, args), want in zip(calls, native):
                m = shared if fname in stateful else _new_machine(image, base, externs)
                before = m.steps
                try:
                    got = _emu_call(m, symbols, kind, fname, args)
                except EmuError as e:
                    res["problems"].append("%s %s%r: %s" % (tag, fname, args, e))
                    continue
                res["calls"] += 1
                res["instructions"] += m.steps - before
                if m is not shared:
                    res["executed"] |= m.executed
                    res["misaligned"] += m.misaligned
                if got != want:
                    res["problems"].append("%s %s%r: emulator %s, native gcc %s" % (tag, fname, args, got[:40], want[:40]))
            res["executed"] |= shared.executed
            res["misaligned"] += shared.misaligned
    finally:
        if own:
            shutil.rmtree(tmpdir, ignore_errors=True)
    return res


# ---------------------------------------------------------------------------
# decode sample: words biased to the modelled classes (fixed bits of a class, the rest pseudo-random; three of four
# with the condition AL) plus fixed edge encodings (zero offsets of every addressing form, shift amounts 0/32, rrx,
# single-register lists, hints, barriers ...) that a random sample does not reach

_CLASS_TEMPLATES = {
    "dp_imm": (0x0E000000, 0x02000000), "dp_reg": (0x0E000010, 0x00000000), "dp_rsr": (0x0E000090, 0x00000010),
    "movw": (0x0FF00000, 0x03000000), "movt": (0x0FF00000, 0x03400000), "mul": (0x0F0000F0, 0x00000090),
    "hmul": (0x0F900090, 0x01000080), "misc": (0x0F900080, 0x01000000), "bx": (0x0FFFFFF0, 0x012FFF10),
    "blx": (0x0FFFFFF0, 0x012FFF30), "clz": (0x0FFF0FF0, 0x016F0F10), "mrs": (0x0FFF0FFF, 0x010F0000),
    "msr_r": (0x0FF3FFF0, 0x0120F000), "msr_i": (0x0FF3F000, 0x0320F000), "hint": (0x0FFFFF00, 0x0320F000),
    "xls": (0x0E000090, 0x00000090), "ls_imm": (0x0E000000, 0x04000000), "ls_reg": (0x0E000010, 0x06000000),
    "lsm": (0x0E000000, 0x08000000), "b": (0x0E000000, 0x0A000000), "media": (0x0E000010, 0x06000010),
    "ext": (0x0F8003F0, 0x06800070), "extA": (0x0F8F03F0, 0x068F0070), "rev": (0x0FBF0F70, 0x06BF0F30),
    "sat": (0x0FA00030, 0x06A00010), "div": (0x0FD0F0F0, 0x0710F010), "smm": (0x0FF00010, 0x07500010),
    "bfx": (0x0FA00070, 0x07A00050), "bfi": (0x0FE00070, 0x07C00010), "udf": (0xFFF000F0, 0xE7F000F0),
    "barrier": (0xFFFFFF00, 0xF57FF000), "pld_i": (0xFF30F000, 0xF510F000), "pld_r": (0xFF30F010, 0xF710F000),
    "pld_any": (0xFC30F000, 0xF410F000), "blx_i": (0xFE000000, 0xFA000000), "svc": (0x0F000000, 0x0F000000),
    "any": (0, 0),
}  # fmt: skip

_EDGE_WORDS = [
    0xE5B10000, 0xE5310000, 0xE4910000, 0xE4110000, 0xE5910000, 0xE5110000, 0xE5F10000, 0xE4D10000, 0xE1F320B0, 0xE17320B0,
    0xE0D320B0, 0xE05320B0, 0xE1D320B0, 0xE15320B0, 0xE1E9A0F0, 0xE0C9A0F0, 0xE1C9A0D0, 0xE14920D0, 0xE1F920D0, 0xE0D920F0,
    0xE59F0000, 0xE51F0000, 0xE1DF20B0, 0xE15F20B0, 0xE14F20D0, 0xE52D0004, 0xE49D0004, 0xE92D0001, 0xE8BD0001, 0xE92D0003,
    0xE8BD8001, 0xE8BD0003, 0xE9AD0003, 0xE89D0003, 0xE1A00000, 0xE1A00060, 0xE1B00060, 0xE1A00FE0, 0xE1A00020, 0xE1A00040,
    0xE0800060, 0xE0800020, 0xE320F000, 0xE320F001, 0xE320F002, 0xE320F003, 0xE320F004, 0xE320F005, 0xE320F0F3, 0xF57FF05F,
    0xF57FF05B, 0xF57FF04F, 0xF57FF06F, 0xF57FF050, 0xF57FF064, 0xE6AF0071, 0xE6AF0471, 0xE6AF0C71, 0xE6A10072, 0xE6EF0071,
    0xE6FF0071, 0xE6BF0071, 0xE6A00011, 0xE6A00051, 0xE6BF0051, 0xE6E00011, 0xE6FF0F91, 0xE6A007D1, 0xE7C0001F, 0xE7DF001F,
    0xE7C00011, 0xE7DF0811, 0xE7A00051, 0xE7FF0051, 0xE7E00FD1, 0xE12FFF1E, 0xE12FFF3E, 0xE1200070, 0xE7F000F0, 0xEF000000,
    0xE10F0000, 0xE128F000, 0xE328F20F, 0xE28F0008, 0xE24F0008, 0xE28F0000, 0xE3E00000, 0xE3A004FF, 0xE3A00CFF, 0xE3B0F000,
    0xE1A0F00E, 0xE1B0F00E, 0xE0000291, 0xE0100291, 0xE0203291, 0xE0603291, 0xE0810392, 0xE0E10392, 0xE0410392, 0xE1000382,
    0xE16003E2, 0xE12003A2, 0xE1200382, 0xE14103E2, 0xE750F211, 0xE7503211, 0xE750F231, 0xE75032D1, 0xE710F211, 0xE730F211,
    0xE715F211, 0xF5D1F000, 0xF551F000, 0xF591F000, 0xF5D1F004, 0xF7D1F002, 0xF751F082, 0xF55FF010, 0xE3B03108, 0xE7910102,
    0xE7110102, 0xE6910102, 0xE7B10162, 0xE19100B2, 0xE11100B2, 0xE09100B2, 0xE1B100B2, 0xE18100D2, 0xE18100F2, 0xE19100D2,
    0xE19100F2, 0xE8910006, 0xE9910006, 0xE8110006, 0xE9110006, 0xE8A10006, 0xE9A10006, 0xE8210006, 0xE9210006, 0xE8B10006,
]  # fmt: skip


def sample_words(per_class, seed="arm32-dec"):
    from .rv32 import _prng

    g = _prng(seed)
    out = list(_EDGE_WORDS)
    for name, (mask, val) in _CLASS_TEMPLATES.items():
        for i in range(per_class):
            w = (next(g) & ~mask & M32) | val
            if mask >> 28 == 0 and i % 4:
                w = (w & 0x0FFFFFFF) | 0xE0000000
            out.append(w)
    return out


_SELFCHECK_MEMO = {}


def selfcheck(level="quick", tmpdir=None, use_cache=True):
    """Self-validation independent of ppci.  'quick': hand vectors, fixed corpus + 24 generated functions at -O1 (with and
    without hardware divide), decode of every executed encoding, of the edge list and of 150 sampled words per class; the
    result is cached in /verif/.build keyed by the hash of this file and of vf/rv32.py (whose corpus generator is used).
    'thorough': 120 generated functions at -O0/-O1/-O2/-Os, 4000 sampled words per class.
    Returns a json-able dict with 'ok' and 'problems'."""
    import json

    if level in _SELFCHECK_MEMO:
        return _SELFCHECK_MEMO[level]
    here = os.path.dirname(os.path.abspath(__file__))
    key = hashlib.blake2b(open(os.path.abspath(__file__), "rb").read() + open(os.path.join(here, "rv32.py"), "rb").read(), digest_size=8).hexdigest()
    cdir = os.path.join(os.path.dirname(here), ".build")
    cpath = os.path.join(cdir, "arm32-selfcheck-%s-%s.json" % (level, key))
    if use_cache and level == "quick" and os.path.exists(cpath):
        try:
            with open(cpath) as f:
                r = json.load(f)
            r["cached"] = True
            _SELFCHECK_MEMO[level] = r
            return r
        except ValueError:
            pass
    for tool in ("clang", "gcc"):
        if not shutil.which(tool):
            return {"ok": False, "problems": ["%s not found" % tool]}
    if not llvm_mc():
        return {"ok": False, "problems": ["llvm-mc not found"]}
    try:
        if level == "quick":
            sem = validate_semantics(24, 5, (("-O1",), ("-O1", "-march=armv7ve")), tmpdir)
            words = sorted(sem["executed"]) + sample_words(150)
        else:
            variants = tuple((o,) + extra for o in ("-O0", "-O1", "-O2", "-Os") for extra in ((), ("-march=armv7ve",)))
            sem = validate_semantics(120, 10, variants, tmpdir)
            words = sorted(sem["executed"]) + sample_words(4000)
        dec = validate_decode(words)
    except (RuntimeError, LinkError, OSError, subprocess.SubprocessError) as e:
        return {"ok": False, "problems": ["self-check could not run: %s: %s" % (type(e).__name__, str(e)[:300])]}
    r = {
        "level": level,
        "ok": not sem["problems"] and not dec["mismatches"],
        "problems": (sem["problems"] + dec["mismatches"])[:20],
        "semantic_calls": sem["calls"],
        "semantic_functions": sem["functions"],
        "hand_vectors": sem["vectors"],
        "emulated_instructions": sem["instructions"],
        "distinct_encodings_executed": len(sem["executed"]),
        "misaligned_accesses": sem["misaligned"],
        "decode_compared": dec["compared"],
        "decode_unmodelled": dec["unmodelled"],
        "decode_unpredictable_not_compared": dec["unpredictable"],
        "cached": False,
    }
    if level == "quick" and r["ok"]:
        try:
            os.makedirs(cdir, exist_ok=True)
            tmp = cpath + ".%d.tmp" % os.getpid()
            with open(tmp, "w") as f:
                json.dump(r, f)
            os.replace(tmp, cpath)
        except OSError:
            pass
    _SELFCHECK_MEMO[level] = r
    return r


if __name__ == "__main__":
    import json
    import sys

    print(json.dumps(selfcheck(sys.argv[1] if len(sys.argv) > 1 else "quick", use_cache=False), indent=1))
