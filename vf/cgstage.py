"""Shared back-end helpers for C29 (code generation succeeds) and C30 (compilation is deterministic).

* TARGETS / target_info(T): the value types a target supports, derived from get_arch(T).info
  (a type is supported when it has a TypeInfo AND a register class; types with a TypeInfo but no
  register class are 'advertised only').
* adapt_c(src, T): rewrites a vf/gencc unit (written for the LP64 model) for ILP32 targets.
* module_classes(m) / desc_classes(desc): the (instruction kind, operator, type, constant operand?) classes
  of a ppci ir.Module / of a vf/genir description - same naming, cross-checked by tools/c29_measure.py.
* allowed_classes(T): the classes some ppci front end was measured to emit for T (vf/c29_classes.json).
* restrict(desc, allowed): rewrites a genir description so that it only uses allowed classes.
* bucket(exc): (exception type, innermost ppci frame, offending tree operator / normalised message).
* Observer / ir_text / object_text / link_image: observation of the pipeline stages (IR text after optimisation,
  selected instructions before register allocation, allocated instructions, object text, image bytes) by wrapping
  methods of ppci's CodeGenerator and GraphColoringRegisterAllocator (used by vf/c30_worker.py).
"""

import hashlib
import io
import json
import os
import re

TARGETS = ("x86_64", "arm", "arm:thumb", "riscv", "riscv:rvc")
LEVELS = ("0", "1", "2", "s")
OPTS = ("speed", "size")
CLASSES_FILE = os.path.join(os.path.dirname(os.path.abspath(__file__)), "c29_classes.json")

_INFO = {}


def target_info(target):
    """{"int_types", "float_types", "ptr_bits", "advertised_only"} from the architecture's ArchInfo."""
    if target not in _INFO:
        from ppci import ir
        from ppci.api import get_arch

        info = get_arch(target).info
        ints, floats, adv = [], [], []
        for t in ir.value_types:
            if t in info.type_infos:
                if t in info.value_classes:
                    (floats if t.name[0] == "f" else ints).append(t.name)
                else:
                    adv.append(t.name)
        _INFO[target] = {
            "int_types": ints,
            "float_types": floats,
            "ptr_bits": info.get_size(ir.ptr) * 8,
            "advertised_only": adv,
        }
    return _INFO[target]


# ---------------------------------------------------------------------------
# C sources for 32-bit targets

_NUM = re.compile(r"(?<![\w.])(0[xX][0-9A-Fa-f]+|\d+)([uU]?)([lL]{0,2})(?![\w.])")
_SHIFT = re.compile(r"(<<|>>)(=?) (\d+)")


def adapt_c(src, target):
    """gencc writes for LP64 (long = long long = 64 bit).  For a 32-bit target the same unit is rewritten so that it
    stays a defined-behaviour ILP32 program shape: no 'long long' (i64 is not a supported value type there),
    constants reduced to 32 bits, constant shift counts reduced modulo 32."""
    if target_info(target)["ptr_bits"] == 64:
        return src
    s = src.replace("unsigned long long", "unsigned long").replace("long long", "long")

    def num(m):
        v = int(m.group(1), 0)
        u, l = m.group(2), m.group(3)
        lim = 0xFFFFFFFF if u else 0x7FFFFFFF
        if v <= lim and len(l) < 2:
            return m.group(0)
        w = v & lim
        if w == 0 and v != 0:
            w = 1
        body = ("0x%X" % w) if m.group(1)[:2].lower() == "0x" else str(w)
        return body + u + l[:1]

    s = _NUM.sub(num, s)
    s = _SHIFT.sub(lambda m: "%s%s %d" % (m.group(1), m.group(2), int(m.group(3)) % 32), s)
    s = s.replace("& 63)", "& 31)")
    return s


def c_frontend(src, target):
    from ppci.api import c_to_ir

    return c_to_ir(io.StringIO(src), target)


# ---------------------------------------------------------------------------
# classes


def _tn(ty):
    n = getattr(ty, "name", None)
    if n in ("i8", "u8", "i16", "u16", "i32", "u32", "i64", "u64", "f32", "f64", "ptr"):
        return n
    return "blob"


def module_types(m):
    """names of all value types used by a module (blob types reported as 'blob')"""
    from ppci import ir

    tys = set()
    for f in m.functions:
        for p in f.arguments:
            tys.add(_tn(p.ty))
        if isinstance(f, ir.Function):
            tys.add(_tn(f.return_ty))
        for b in f:
            for ins in b:
                if isinstance(ins, ir.Value):
                    tys.add(_tn(ins.ty))
    for e in m.externals:
        if isinstance(e, ir.ExternalSubRoutine):
            for t in e.argument_types:
                tys.add(_tn(t))
            if isinstance(e, ir.ExternalFunction):
                tys.add(_tn(e.return_ty))
    return tys


def function_classes(f):
    from ppci import ir

    def k(v):
        return "c" if isinstance(v, ir.Const) else "r"

    cs = []
    for p in f.arguments:
        cs.append("param %s" % _tn(p.ty))
    for b in f:
        for ins in b:
            if isinstance(ins, ir.Binop):
                cs.append("binop %s %s %s%s" % (ins.operation, _tn(ins.ty), k(ins.a), k(ins.b)))
            elif isinstance(ins, ir.Unop):
                cs.append("unop %s %s %s" % (ins.operation, _tn(ins.ty), k(ins.a)))
            elif isinstance(ins, ir.Cast):
                cs.append("cast %s>%s %s" % (_tn(ins.src.ty), _tn(ins.ty), k(ins.src)))
            elif isinstance(ins, ir.Load):
                cs.append("load %s" % _tn(ins.ty))
            elif isinstance(ins, ir.Store):
                cs.append("store %s %s" % (_tn(ins.value.ty), k(ins.value)))
            elif isinstance(ins, ir.CJump):
                cs.append("cjmp %s %s %s%s" % (ins.cond, _tn(ins.a.ty), k(ins.a), k(ins.b)))
            elif isinstance(ins, ir.Const):
                cs.append("const %s" % _tn(ins.ty))
            elif isinstance(ins, ir.Phi):
                cs.append("phi %s" % _tn(ins.ty))
            elif isinstance(ins, (ir.FunctionCall, ir.ProcedureCall)):
                cs.append("call %s" % (_tn(ins.ty) if isinstance(ins, ir.FunctionCall) else "void"))
                if not isinstance(ins.callee, (ir.SubRoutine, ir.ExternalSubRoutine)):
                    cs.append("call-indirect")
                for a in ins.arguments:
                    cs.append("arg %s" % _tn(a.ty))
            elif isinstance(ins, ir.Return):
                cs.append("ret %s" % _tn(ins.result.ty))
            elif isinstance(ins, ir.Exit):
                cs.append("exit")
            elif isinstance(ins, ir.Jump):
                cs.append("jmp")
            elif isinstance(ins, ir.Alloc):
                cs.append("alloc")
            elif isinstance(ins, ir.AddressOf):
                cs.append("addr")
            elif isinstance(ins, ir.LiteralData):
                cs.append("literal")
            elif isinstance(ins, ir.CopyBlob):
                cs.append("copy")
            elif isinstance(ins, ir.Undefined):
                cs.append("undef %s" % _tn(ins.ty))
            else:
                cs.append("other %s" % type(ins).__name__)
    return cs


def module_classes(m):
    s = set()
    for f in m.functions:
        s.update(function_classes(f))
    return s


def desc_function_classes(desc, fd):
    """classes of one function of a genir description (same naming as function_classes)"""
    ty = {}
    consts = set()
    for g in desc["globals"]:
        ty[g["name"]] = "ptr"
    for e in desc["externals"]:
        ty[e["name"]] = "ptr"
    for f in desc["functions"]:
        ty[f["name"]] = "ptr"
    for pn, pt in fd["params"]:
        ty[pn] = pt
    for b in fd["blocks"]:
        for ins in b["ins"]:
            kd = ins[0]
            if kd in ("const", "binop", "unop", "cast", "load", "phi", "undef"):
                ty[ins[1]] = ins[2]
                if kd == "const":
                    consts.add(ins[1])
            elif kd == "addr":
                ty[ins[1]] = "ptr"
            elif kd in ("alloc", "literal"):
                ty[ins[1]] = "blob"
            elif kd == "call" and ins[1] is not None:
                ty[ins[1]] = ins[2]
    direct = {f["name"] for f in desc["functions"]} | {e["name"] for e in desc["externals"]}

    def k(n):
        return "c" if n in consts else "r"

    out = []  # (class, block index, instruction index)
    for pn, pt in fd["params"]:
        out.append(("param %s" % pt, -1, -1))
    for bi, b in enumerate(fd["blocks"]):
        for ii, ins in enumerate(b["ins"]):
            kd = ins[0]
            if kd == "binop":
                c = "binop %s %s %s%s" % (ins[4], ins[2], k(ins[3]), k(ins[5]))
            elif kd == "unop":
                c = "unop %s %s %s" % (ins[3], ins[2], k(ins[4]))
            elif kd == "cast":
                c = "cast %s>%s %s" % (ty[ins[3]], ins[2], k(ins[3]))
            elif kd == "load":
                c = "load %s" % ins[2]
            elif kd == "store":
                c = "store %s %s" % (ty[ins[1]], k(ins[1]))
            elif kd == "cjmp":
                c = "cjmp %s %s %s%s" % (ins[2], ty[ins[1]], k(ins[1]), k(ins[3]))
            elif kd == "const":
                c = "const %s" % ins[2]
            elif kd == "phi":
                c = "phi %s" % ins[2]
            elif kd == "call":
                c = "call %s" % (ins[2] if ins[1] is not None else "void")
                if ins[3] not in direct:
                    out.append(("call-indirect", bi, ii))
                for a in ins[4]:
                    out.append(("arg %s" % ty[a], bi, ii))
            elif kd == "ret":
                c = "ret %s" % ty[ins[1]]
            elif kd == "undef":
                c = "undef %s" % ins[2]
            elif kd in ("exit", "jmp", "alloc", "addr", "literal", "copy"):
                c = kd
            else:
                c = "other %s" % kd
            out.append((c, bi, ii))
    return out


def desc_classes(desc):
    s = set()
    for fd in desc["functions"]:
        s.update(c for c, _, _ in desc_function_classes(desc, fd))
    return s


_ALLOWED = None


def allowed_classes(target):
    global _ALLOWED
    if _ALLOWED is None:
        with open(CLASSES_FILE) as f:
            _ALLOWED = json.load(f)
    return set(_ALLOWED["classes"][target])


SAFE_BINOPS = ("+", "-", "*", "&", "|", "^")


def restrict(desc, allowed, counts=None):
    """Rewrite description `desc` in place so that every instruction class is in `allowed`.

    A disallowed binop gets another operator of the same type and operand const-ness out of + - * & | ^ when one is
    allowed; a disallowed cjmp gets an allowed condition; any other disallowed value-producing instruction becomes a
    constant of its type (its name stays defined, so the module stays well formed); disallowed stores/copies are
    dropped.  What cannot be repaired (parameter / return / call classes) is returned as a list of classes: the caller
    discards such a module.  counts: Counter of rewrites, by kind."""
    bad = []
    for fd in desc["functions"]:
        for rnd in range(4):
            changed = False
            drop = []
            widen = []
            constval = {i[1]: i[3] for b in fd["blocks"] for i in b["ins"] if i[0] == "const" and not isinstance(i[3], str)}
            for c, bi, ii in desc_function_classes(desc, fd):
                if c in allowed:
                    continue
                if bi < 0:
                    bad.append(c)
                    continue
                ins = fd["blocks"][bi]["ins"][ii]
                kd = ins[0]
                new = None
                if kd == "binop":
                    parts = c.split(" ")
                    h = int(hashlib.blake2b(ins[1].encode(), digest_size=2).hexdigest(), 16)
                    cands = [op for op in SAFE_BINOPS if "binop %s %s %s" % (op, parts[2], parts[3]) in allowed]
                    if ins[2] in ("f32", "f64"):
                        cands = [op for op in cands if op in ("+", "-", "*")]
                    if ins[2] == "ptr":
                        cands = [op for op in cands if op in ("+", "-")]
                    if cands:
                        new = ["binop", ins[1], ins[2], ins[3], cands[h % len(cands)], ins[5]]
                        kind = "binop:operator replaced"
                elif kd == "cjmp":
                    parts = c.split(" ")
                    cands = [cd for cd in ("==", "!=", "<", ">", "<=", ">=") if "cjmp %s %s %s" % (cd, parts[2], parts[3]) in allowed]
                    wide = ("u" if parts[2][0] == "u" else "i") + "32"
                    if cands:
                        new = ["cjmp", ins[1], cands[0], ins[3], ins[4], ins[5]]
                        kind = "cjmp:condition replaced"
                    else:
                        repl = None
                        wconds = [cd for cd in (parts[1], "==", "!=", "<", ">", "<=", ">=") if "cjmp %s %s %s" % (cd, wide, parts[3]) in allowed]
                        if parts[2] in ("i8", "u8", "i16", "u16") and wconds:
                            # what a C front end does: integer promotion of both operands, then compare
                            pre, names = [], []
                            for opnd, k, sfx in ((ins[1], parts[3][0], "w"), (ins[3], parts[3][1], "x")):
                                nn = "%s_%s%d" % (opnd, sfx, bi)
                                if k == "c":
                                    pre.append(["const", nn, wide, constval.get(opnd, 1)])
                                elif "cast %s>%s r" % (parts[2], wide) in allowed:
                                    pre.append(["cast", nn, wide, opnd])
                                else:
                                    pre = None
                                    break
                                names.append(nn)
                            if pre is not None:
                                repl = pre + [["cjmp", names[0], wconds[0], names[1], ins[4], ins[5]]]
                                kind = "cjmp:operands promoted"
                        cconds = [cd for cd in (parts[1], "==", "!=", "<", ">") if "cjmp %s i32 cc" % cd in allowed]
                        if repl is None and cconds:
                            a, b = "k%d_w%d" % (ii, bi), "k%d_x%d" % (ii, bi)
                            repl = [["const", a, "i32", 1], ["const", b, "i32", 0], ["cjmp", a, cconds[0], b, ins[4], ins[5]]]
                            kind = "cjmp:operands replaced by constants"
                        if repl is None:
                            bad.append(c)
                            continue
                        widen.append((bi, ii, repl))
                        if counts is not None:
                            counts[kind] += 1
                        continue
                if new is None:
                    if kd in ("binop", "unop", "cast", "load", "undef") and ins[2] != "ptr" and "const %s" % ins[2] in allowed:
                        new = ["const", ins[1], ins[2], "f:3ff0000000000000" if ins[2][0] == "f" else 1]
                        kind = "%s:replaced by constant" % kd
                    elif kd in ("store", "copy"):
                        drop.append((bi, ii))
                        kind = "%s:dropped" % kd
                        if counts is not None:
                            counts[kind] += 1
                        continue
                    else:
                        bad.append(c)
                        continue
                fd["blocks"][bi]["ins"][ii] = new
                changed = True
                if counts is not None:
                    counts[kind] += 1
            for bi, ii, repl in widen:
                if (bi, ii) not in drop:
                    fd["blocks"][bi]["ins"][ii : ii + 1] = repl  # the terminator: indices of earlier instructions stay valid
                    changed = True
            for bi, ii in sorted(set(drop), reverse=True):
                del fd["blocks"][bi]["ins"][ii]
                changed = True
            if not changed:
                break
    return sorted(set(bad))


# ---------------------------------------------------------------------------
# failures


def _uncovered(tree, out):
    """lowest nodes of a labelled tree that no rule covers"""
    below = False
    for c in tree.children:
        if _uncovered(c, out):
            below = True
    st = getattr(tree, "state", None)
    if st is not None and not st.labels:
        if not below:
            kids = ",".join(_goal(c) for c in tree.children)
            out.append("%s(%s)" % (tree.name, kids) if tree.children else tree.name)
        return True
    return below


def _goal(tree):
    labs = getattr(tree, "state", None).labels
    for g in ("reg", "reg64", "reg32", "reg16", "reg8", "regfp", "stm"):
        if g in labs:
            return g
    return sorted(labs)[0] if labs else "?"


def _norm(s):
    s = re.sub(r"0x[0-9a-fA-F]+", "N", str(s))
    s = re.sub(r"\d+", "N", s)
    return s[:160]


def bucket(exc):
    """(exception type, innermost ppci frame 'file:function', detail)"""
    from .irpasses import innermost_ppci_frame

    frame = innermost_ppci_frame(exc)
    name = type(exc).__name__
    detail = _norm(exc)
    if isinstance(exc, AssertionError) and frame == "arch/token.py:__setitem__":
        # an operand does not fit its encoding field: name the instruction class and the direction
        tb, item, value, limit = exc.__traceback__, None, None, None
        while tb is not None:
            loc = tb.tb_frame.f_locals
            if tb.tb_frame.f_code.co_name == "do_emit" and "item" in loc:
                item = loc["item"]
            if tb.tb_frame.f_code.co_name == "__setitem__":
                value, limit = loc.get("value"), loc.get("limit")
            tb = tb.tb_next
        if item is not None and isinstance(value, int):
            detail = "encoding %s: field value %s" % (type(item).__name__, "negative" if value < 0 else "too large")
    if isinstance(exc, RuntimeError) and "not covered" in str(exc):
        tb = exc.__traceback__
        tree = None
        while tb is not None:
            if tb.tb_frame.f_code.co_name == "gen" and "tree" in tb.tb_frame.f_locals:
                tree = tb.tb_frame.f_locals["tree"]
            tb = tb.tb_next
        if tree is not None:
            out = []
            try:
                _uncovered(tree, out)
            except Exception:
                out = []
            if out:
                detail = "uncovered " + " ".join(sorted(set(out)))
            else:
                detail = "no stm cover for root " + tree.name
    return name, frame, detail


def bucket_text(b):
    return "%s [%s] %s" % b


# ---------------------------------------------------------------------------
# pipeline


def compile_module(m, target, level, opt):
    """optimize + ir_to_object; returns the object file (exceptions propagate)"""
    from ppci.api import ir_to_object, optimize

    optimize(m, level=level)
    return ir_to_object([m], target, opt=opt)


def ir_text(m):
    from ppci.irutils import print_module

    f = io.StringIO()
    print_module(m, file=f, verify=False)
    return f.getvalue()


def render_ins(ins):
    """text of a (virtual or allocated) machine instruction; falls back to a structural rendering when ppci's own
    __str__ fails (riscv registers have no from_num)"""
    try:
        return str(ins)
    except Exception:
        pass
    from ppci.arch.registers import Register

    parts = [type(ins).__name__]
    try:
        for prop, obj in ins.leaves:
            v = prop.__get__(obj)
            if isinstance(v, Register):
                parts.append(v.name if v._num is not None else ("c%s" % v.color if v.is_colored else v.name))
            else:
                parts.append(str(v))
    except Exception as e:
        parts.append("<%s>" % type(e).__name__)
    return " ".join(parts)


class Observer:
    """Wraps ppci.codegen.codegen.CodeGenerator to record the instruction list of every function after instruction
    selection (before register allocation) and after register allocation."""

    def __init__(self):
        self.selected = []
        self.allocated = []
        self.spills = 0
        self.callee_saved = 0

    def __enter__(self):
        from ppci.codegen import codegen, registerallocator

        self._cg = codegen.CodeGenerator
        self._ra = registerallocator.GraphColoringRegisterAllocator
        self._sel = self._cg.select_and_schedule
        self._alloc = self._ra.alloc_frame
        self._rewrite = self._ra.rewrite_program
        obs = self

        def select_and_schedule(cg, ir_function, frame):
            r = obs._sel(cg, ir_function, frame)
            obs.selected.append("%s:\n" % ir_function.name + "\n".join("  " + render_ins(i) for i in frame.instructions))
            return r

        def alloc_frame(ra, frame):
            r = obs._alloc(ra, frame)
            obs.allocated.append("%s:\n" % frame.name + "\n".join("  " + render_ins(i) for i in frame.instructions))
            try:
                obs.callee_saved = max(obs.callee_saved, len([x for x in getattr(ra.arch, "get_callee_saved", lambda f: [])(frame)]))
            except Exception:
                pass
            return r

        def rewrite_program(ra, node):
            obs.spills += 1
            return obs._rewrite(ra, node)

        self._cg.select_and_schedule = select_and_schedule
        self._ra.alloc_frame = alloc_frame
        self._ra.rewrite_program = rewrite_program
        return self

    def __exit__(self, *a):
        self._cg.select_and_schedule = self._sel
        self._ra.alloc_frame = self._alloc
        self._ra.rewrite_program = self._rewrite
        return False


LAYOUT = """
MEMORY code LOCATION=0x10000 SIZE=0x400000 { SECTION(code) }
MEMORY ram LOCATION=0x20000000 SIZE=0x400000 { SECTION(data) }
"""


def link_image(obj, externals=()):
    """Final link of one object with a fixed layout; undefined symbols are given fixed addresses.  Returns hex of
    the images (None, reason) if ppci's linker refuses (not a concern of C29/C30)."""
    from ppci.api import link

    undefined = sorted(s.name for s in obj.symbols if s.undefined)
    extra = {n: 0x3000 + 16 * i for i, n in enumerate(undefined)}
    try:
        out = link([obj], layout=io.StringIO(LAYOUT), extra_symbols=extra)
    except Exception as e:
        return None, "%s: %s" % (type(e).__name__, _norm(e))
    return "".join("%s@%x:%s;" % (img.name, img.address, bytes(img.data).hex()) for img in out.images), None


def object_text(obj):
    f = io.StringIO()
    obj.save(f)
    return f.getvalue()


def digest(s):
    if isinstance(s, str):
        s = s.encode()
    return hashlib.blake2b(s, digest_size=8).hexdigest()
