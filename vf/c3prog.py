"""Abstract programs over what C3 and C share, with two renderers and a direct evaluator (DESIGN.md 3.3, C37).
(vf/genc3.py is a different module: C28's generator of C3 source text.)

A program is plain JSON:

program = {
  "alias":   {scalar type: C3 spelling}     "int"/"int32_t", "byte"/"uint8_t", or the name of a typedef below
  "typedefs": [[name, scalar type], ...]    C3 `type uint16_t T0;`
  "structs": [{"name": "S0", "fields": [[fname, scalar | ["arr", scalar, n] | ["struct", earlier struct]], ...]}],
  "consts":  [{"name": "K0", "ty": "i32" | "u8", "val": KEXPR}],
             KEXPR = int (>= 0) | ["k", earlier const] | ["kbin", "+" | "-" | "*" | "/" | "%", KEXPR, KEXPR]
                     | ["b", 0 | 1] (`false` / `true`, only as the initialiser of a bool global)
             (constant expressions have the meaning of the same run-time `int` expression: `/` truncates, `%` takes
             the sign of the dividend; the value is then converted to the const's type)
  "globals": [{"name": "g0", "ty": TYPE, "init": None | [KEXPR per scalar leaf, in layout order]}],
  "funcs":   [{"name": "f0", "ret": scalar type | "void", "params": [[name, TYPE], ...], "pure": bool, "body": [STMT...]}],
}
TYPE  = "i8" "u8" "i16" "u16" "i32" "u32" "i64" "u64" "bool" | ["arr", TYPE, n] | ["arr", TYPE, n, const name]
        (the C3 text gives the size by that const, whose value is n) | ["struct", name] | ["ptr", TYPE]
LVAL  = ["var", T, name] | ["idx", T, LVAL(array), EXPR(i32)] | ["fld", T, LVAL(struct), fname] | ["deref", T, EXPR(ptr)]
EXPR  = LVAL (load) | ["lit", T, v] (|v| < 2^31: an `int` literal, cast to T) | ["blit", "bool", 0|1] | ["const", T, name]
      | ["sizeof", "i32", TYPE (scalar, pointer or array of scalars)]
      | ["un", T, "-"|"+", e] | ["bin", T, op, a, b] (a, b of type T) | ["cast", T, e, implicit] | ["addr", ["ptr", T], LVAL]
      | ["cmp", "bool", op, a, b] | ["and", "bool", a, b] | ["or", "bool", a, b] | ["not", "bool", a] | ["call", T, fname, [args]]
STMT  = ["decl", name, TYPE, init]      init: EXPR (scalar, pointer) | [init...] (array elements / struct fields in order)
      | ["assign", LVAL, "=" | "+=" | "-=" | "*=" | "|=" | "&=", EXPR]
      | ["if", cond, [STMT...], [STMT...]] | ["while", cond, [STMT...]] | ["for", STMT(assign), cond, STMT(assign), [STMT...]]
      | ["switch", EXPR(i32), [[int | const name | KEXPR | None (default), [STMT...]], ...]]
      | ["ret", EXPR | None] | ["callstmt", fname, [args]]

Meaning (the property's "fixed-width integer arithmetic of the declared types"): every operation on type T yields
its mathematical result reduced to T, except that the executions the C standard leaves undefined raise `UB`
(overflow of `+ - *`, unary `-` on int/int64_t, division by zero, MIN / -1, shift count outside [0, bits), `<<` on a
signed type, index out of range).  Operations on int8_t/int16_t wrap: the C rendering computes them in `int` and casts
back, which is defined.  `bool` holds 0/1 and is stored like `int`; conditions short-circuit; `switch` does not fall
through; C3 locals live in one function scope, the generator uses them only inside their C block scope.
"""

from hypothesis import strategies as st

INT_TYPES = ["i8", "u8", "i16", "u16", "i32", "u32", "i64", "u64"]
SCALARS = INT_TYPES + ["bool"]
BITS = {"i8": 8, "u8": 8, "i16": 16, "u16": 16, "i32": 32, "u32": 32, "i64": 64, "u64": 64, "bool": 32}
C3NAME = {"i8": "int8_t", "u8": "byte", "i16": "int16_t", "u16": "uint16_t", "i32": "int", "u32": "uint32_t",
          "i64": "int64_t", "u64": "uint64_t", "bool": "bool"}
CNAME = {"i8": "int8_t", "u8": "uint8_t", "i16": "int16_t", "u16": "uint16_t", "i32": "int32_t", "u32": "uint32_t",
         "i64": "int64_t", "u64": "uint64_t", "bool": "int32_t"}
ARITH = ["+", "-", "*", "/", "%", "&", "|", "^", "<<", ">>"]
CMPS = ["==", "!=", "<", ">", "<=", ">="]
LITMAX = 2**31 - 1
MOD = "m"


def is_scalar(t):
    return isinstance(t, str)


def is_signed(t):
    return t[0] == "i" or t == "bool"


def trange(t):
    b = BITS[t]
    if t == "bool":
        return 0, 1
    return (-(1 << (b - 1)), (1 << (b - 1)) - 1) if is_signed(t) else (0, (1 << b) - 1)


def norm(t, v):
    b = BITS[t]
    v &= (1 << b) - 1
    if is_signed(t) and v >> (b - 1):
        v -= 1 << b
    return v


def kind(t):
    return "scalar" if isinstance(t, str) else t[0]


def struct_of(prog, name):
    for s in prog["structs"]:
        if s["name"] == name:
            return s
    raise KeyError(name)


def leaves(prog, t, path=""):
    """(path, scalar type) of every scalar inside an object of type t, in C3 layout order."""
    k = kind(t)
    if k == "scalar":
        return [(path, t)]
    if k == "arr":
        out = []
        for i in range(t[2]):
            out += leaves(prog, t[1], "%s[%d]" % (path, i))
        return out
    if k == "struct":
        out = []
        for fn, ft in struct_of(prog, t[1])["fields"]:
            out += leaves(prog, ft, "%s.%s" % (path, fn))
        return out
    raise ValueError("no leaves in %r" % (t,))


def size_of(prog, t):
    """C3 object size: scalars by width (bool like int), arrays and structs packed (typechecker.check_type)."""
    return sum(BITS[lt] // 8 for _, lt in leaves(prog, t))


def kexpr_value(e, consts, pythonic=False):
    """Value of a constant expression.  consts: name -> value of the earlier consts.
    pythonic=True models Context.eval_const of the pinned tree (operator.truediv / operator.mod)."""
    if isinstance(e, int):
        return e
    if e[0] == "k":
        return consts[e[1]]
    if e[0] == "b":
        return e[1]
    a = kexpr_value(e[2], consts, pythonic)
    b = kexpr_value(e[3], consts, pythonic)
    op = e[1]
    if op == "+":
        return a + b
    if op == "-":
        return a - b
    if op == "*":
        return a * b
    if pythonic:
        return a / b if op == "/" else a % b
    q = abs(a) // abs(b)
    if (a < 0) != (b < 0):
        q = -q
    return q if op == "/" else a - q * b


def const_values(prog, pythonic=False):
    """name -> value of every const (pythonic: as Context.eval_const computes them, possibly a float)"""
    out = {}
    for c in prog["consts"]:
        v = kexpr_value(c["val"], out, pythonic)
        if pythonic:
            # `const byte K = e` is coerced with a cast that eval_const folds as int(v) & 0xFF; `const int` is not cast
            out[c["name"]] = int(v) & 0xFF if c["ty"] == "u8" else v
        else:
            out[c["name"]] = norm(c["ty"], v)
    return out


def ginit_values(g):
    init = g.get("init")
    if init is None:
        return None
    return [init] if isinstance(init, int) else init


def label_kexpr(val):
    """case label (int | const name | KEXPR) as a KEXPR"""
    return ["k", val] if isinstance(val, str) else val


def kexpr_ops(e):
    if isinstance(e, int) or e[0] in ("k", "b"):
        return set()
    return {e[1]} | kexpr_ops(e[2]) | kexpr_ops(e[3])


def constant_divmod(prog):
    """does a constant expression of the program (const, case label, global initialiser) use / or % ?"""
    found = [False]

    def visit(n):
        if n[0] == "switch" and len(n) == 3:
            for val, _ in n[2]:
                if isinstance(val, list) and kexpr_ops(val) & {"/", "%"}:
                    found[0] = True

    for f in prog["funcs"]:
        walk(f["body"], visit)
    for c in prog["consts"]:
        if kexpr_ops(c["val"]) & {"/", "%"}:
            found[0] = True
    for g in prog["globals"]:
        for v in ginit_values(g) or []:
            if kexpr_ops(v) & {"/", "%"}:
                found[0] = True
    return found[0]


def bool_global_init(prog):
    return any(g["ty"] == "bool" and g.get("init") is not None for g in prog["globals"])


def kexpr_text(e, c=False):
    if isinstance(e, int):
        return str(e)
    if e[0] == "k":
        return e[1]
    if e[0] == "b":
        return str(e[1]) if c else ("true" if e[1] else "false")
    return "(%s %s %s)" % (kexpr_text(e[2], c), e[1], kexpr_text(e[3], c))


# ---------------------------------------------------------------------------
# C3 renderer


class C3Renderer:
    def __init__(self, prog):
        self.p = prog
        self.alias = prog.get("alias") or {}

    def ty(self, t):
        k = kind(t)
        if k == "scalar":
            return self.alias.get(t, C3NAME[t])
        if k == "ptr":
            return self.ty(t[1]) + "*"
        if k == "arr":
            return "%s[%s]" % (self.ty(t[1]), t[3] if len(t) > 3 else t[2])
        return t[1]

    def expr(self, e):
        k = e[0]
        if k == "lit":
            v = e[2]
            s = str(v) if v >= 0 else "(-%d)" % -v
            return s if e[1] == "i32" else "cast<%s>(%s)" % (self.ty(e[1]), s)
        if k == "blit":
            return "true" if e[2] else "false"
        if k in ("const", "var"):
            return e[2]
        if k == "sizeof":
            return "sizeof(%s)" % self.ty(e[2])
        if k == "idx":
            return "%s[%s]" % (self.expr(e[2]), self.expr(e[3]))
        if k == "fld":
            if e[2][0] == "deref":
                return "%s->%s" % (self.expr(e[2][2]), e[3])
            return "%s.%s" % (self.expr(e[2]), e[3])
        if k == "deref":
            return "(*%s)" % self.expr(e[2])
        if k == "addr":
            return "(&%s)" % self.expr(e[2])
        if k == "un":
            return "(%s%s)" % (e[2], self.expr(e[3]))
        if k == "bin":
            return "(%s %s %s)" % (self.expr(e[3]), e[2], self.expr(e[4]))
        if k == "cast":
            if len(e) > 3 and e[3]:
                return self.expr(e[2])
            return "cast<%s>(%s)" % (self.ty(e[1]), self.expr(e[2]))
        if k == "cmp":
            return "(%s %s %s)" % (self.expr(e[3]), e[2], self.expr(e[4]))
        if k in ("and", "or"):
            return "(%s %s %s)" % (self.expr(e[2]), k, self.expr(e[3]))
        if k == "not":
            return "(not %s)" % self.expr(e[2])
        if k == "call":
            return "%s(%s)" % (e[2], ", ".join(self.expr(a) for a in e[3]))
        raise ValueError(e)

    def simple(self, s):
        """assignment without the trailing ';' (for-loop header)"""
        assert s[0] == "assign"
        return "%s %s %s" % (self.expr(s[1]), s[2], self.expr(s[3]))

    def stmts(self, body, ind, out):
        pad = "  " * ind
        for s in body:
            k = s[0]
            if k == "decl":
                out.append("%svar %s %s = %s;" % (pad, self.ty(s[2]), s[1], self.init(s[2], s[3])))
            elif k == "assign":
                out.append("%s%s;" % (pad, self.simple(s)))
            elif k == "if":
                out.append("%sif (%s) {" % (pad, self.expr(s[1])))
                self.stmts(s[2], ind + 1, out)
                if s[3]:
                    out.append("%s} else {" % pad)
                    self.stmts(s[3], ind + 1, out)
                out.append("%s}" % pad)
            elif k == "while":
                out.append("%swhile (%s) {" % (pad, self.expr(s[1])))
                self.stmts(s[2], ind + 1, out)
                out.append("%s}" % pad)
            elif k == "for":
                out.append("%sfor (%s; %s; %s) {" % (pad, self.simple(s[1]), self.expr(s[2]), self.simple(s[3])))
                self.stmts(s[4], ind + 1, out)
                out.append("%s}" % pad)
            elif k == "switch":
                out.append("%sswitch (%s) {" % (pad, self.expr(s[1])))
                for val, blk in s[2]:
                    out.append("%s  %s: {" % (pad, "default" if val is None else "case %s" % kexpr_text(label_kexpr(val))))
                    self.stmts(blk, ind + 2, out)
                    out.append("%s  }" % pad)
                out.append("%s}" % pad)
            elif k == "ret":
                out.append("%sreturn%s;" % (pad, "" if s[1] is None else " " + self.expr(s[1])))
            elif k == "callstmt":
                out.append("%s%s(%s);" % (pad, s[1], ", ".join(self.expr(a) for a in s[2])))
            else:
                raise ValueError(s)

    def init(self, t, x):
        if kind(t) == "arr":
            return "{%s}" % ", ".join(self.init(t[1], y) for y in x)
        if kind(t) == "struct":
            fields = struct_of(self.p, t[1])["fields"]
            return "{%s}" % ", ".join(".%s = %s" % (f[0], self.init(f[1], y)) for f, y in zip(fields, x))
        return self.expr(x)

    def module(self):
        p = self.p
        out = ["module %s;" % MOD]
        for name, t in p.get("typedefs") or []:
            out.append("type %s %s;" % (C3NAME[t], name))
        for s in p["structs"]:
            out.append("type struct { %s } %s;" % (" ".join("%s %s;" % (self.ty(ft), fn) for fn, ft in s["fields"]), s["name"]))
        for c in p["consts"]:
            out.append("const %s %s = %s;" % (self.ty(c["ty"]), c["name"], kexpr_text(c["val"])))
        for g in p["globals"]:
            init = ""
            if g.get("init") is not None:
                init = " = " + self.ginit(g["ty"], ginit_values(g), [0])
            out.append("var %s %s%s;" % (self.ty(g["ty"]), g["name"], init))
        for f in p["funcs"]:
            params = ", ".join("%s %s" % (self.ty(t), n) for n, t in f["params"])
            out.append("function %s %s(%s)" % ("void" if f["ret"] == "void" else self.ty(f["ret"]), f["name"], params))
            out.append("{")
            self.stmts(f["body"], 1, out)
            out.append("}")
        return "\n".join(out) + "\n"

    def ginit(self, t, vals, pos):
        k = kind(t)
        if k == "scalar":
            v = vals[pos[0]]
            pos[0] += 1
            return kexpr_text(v)
        if k == "arr":
            return "{%s}" % ", ".join(self.ginit(t[1], vals, pos) for _ in range(t[2]))
        fields = struct_of(self.p, t[1])["fields"]
        return "{%s}" % ", ".join(".%s = %s" % (fn, self.ginit(ft, vals, pos)) for fn, ft in fields)


def render_c3(prog):
    return C3Renderer(prog).module()


# ---------------------------------------------------------------------------
# C renderer


def c_const(t, v):
    ct = CNAME[t]
    if BITS[t] == 64:
        if is_signed(t):
            if v == -(1 << 63):
                return "((%s)(-9223372036854775807LL - 1))" % ct
            return "((%s)(%dLL))" % (ct, v)
        return "((%s)(%dULL))" % (ct, v)
    if v == -(1 << 31):
        return "((%s)(-2147483647 - 1))" % ct
    if v > LITMAX:
        return "((%s)(%dU))" % (ct, v)
    return "((%s)(%d))" % (ct, v)


class CRenderer:
    def __init__(self, prog):
        self.p = prog

    def ty(self, t):
        k = kind(t)
        if k == "scalar":
            return CNAME[t]
        if k == "ptr":
            return self.ty(t[1]) + " *"
        if k == "struct":
            return t[1]
        raise ValueError(t)

    def declarator(self, t, name):
        # C3 `T[n][m] a` is an array of m arrays of n: C `T a[m][n]`
        dims = ""
        while kind(t) == "arr":
            dims += "[%d]" % t[2]
            t = t[1]
        return "%s %s%s" % (self.ty(t), name, dims)

    def wide(self, t):
        """type in which C computes an operation on t without differing from fixed-width arithmetic"""
        if BITS[t] < 32:
            return "int32_t" if is_signed(t) else "uint32_t"
        return None

    def expr(self, e):
        k = e[0]
        if k == "lit":
            return c_const(e[1], norm(e[1], e[2]))
        if k == "blit":
            return "((int32_t)%d)" % e[2]
        if k in ("const", "var"):
            return e[2]
        if k == "sizeof":
            t = e[2]
            return "((int32_t)sizeof(%s))" % ("%s[%d]" % (self.ty(t[1]), t[2]) if kind(t) == "arr" else self.ty(t))
        if k == "idx":
            return "%s[%s]" % (self.expr(e[2]), self.expr(e[3]))
        if k == "fld":
            if e[2][0] == "deref":
                return "%s->%s" % (self.expr(e[2][2]), e[3])
            return "%s.%s" % (self.expr(e[2]), e[3])
        if k == "deref":
            return "(*%s)" % self.expr(e[2])
        if k == "addr":
            return "(&%s)" % self.expr(e[2])
        if k == "un":
            t = e[1]
            w = self.wide(t)
            a = self.expr(e[3])
            if w:
                return "((%s)(%s(%s)(%s)))" % (CNAME[t], e[2], w, a)
            return "((%s)(%s(%s)))" % (CNAME[t], e[2], a)
        if k == "bin":
            return self.binop(e[1], e[2], self.expr(e[3]), self.expr(e[4]))
        if k == "cast":
            return "((%s)(%s))" % (CNAME[e[1]], self.expr(e[2]))
        if k == "cmp":
            return "((int32_t)((%s) %s (%s)))" % (self.expr(e[3]), e[2], self.expr(e[4]))
        if k in ("and", "or"):
            return "((int32_t)((%s) %s (%s)))" % (self.expr(e[2]), "&&" if k == "and" else "||", self.expr(e[3]))
        if k == "not":
            return "((int32_t)(!(%s)))" % self.expr(e[2])
        if k == "call":
            return "%s(%s)" % (e[2], ", ".join(self.expr(a) for a in e[3]))
        raise ValueError(e)

    def binop(self, t, op, a, b):
        w = self.wide(t)
        if w:
            return "((%s)((%s)(%s) %s (%s)(%s)))" % (CNAME[t], w, a, op, w, b)
        return "((%s)((%s) %s (%s)))" % (CNAME[t], a, op, b)

    def simple(self, s):
        lv = self.expr(s[1])
        rv = self.expr(s[3])
        if s[2] == "=":
            return "%s = %s" % (lv, rv)
        return "%s = %s" % (lv, self.binop(s[1][1], s[2][:-1], lv, rv))

    def stmts(self, body, ind, out):
        pad = "  " * ind
        for s in body:
            k = s[0]
            if k == "decl":
                out.append("%s%s = %s;" % (pad, self.declarator(s[2], s[1]), self.init(s[2], s[3])))
            elif k == "assign":
                out.append("%s%s;" % (pad, self.simple(s)))
            elif k == "if":
                out.append("%sif (%s) {" % (pad, self.expr(s[1])))
                self.stmts(s[2], ind + 1, out)
                if s[3]:
                    out.append("%s} else {" % pad)
                    self.stmts(s[3], ind + 1, out)
                out.append("%s}" % pad)
            elif k == "while":
                out.append("%swhile (%s) {" % (pad, self.expr(s[1])))
                self.stmts(s[2], ind + 1, out)
                out.append("%s}" % pad)
            elif k == "for":
                out.append("%sfor (%s; %s; %s) {" % (pad, self.simple(s[1]), self.expr(s[2]), self.simple(s[3])))
                self.stmts(s[4], ind + 1, out)
                out.append("%s}" % pad)
            elif k == "switch":
                out.append("%sswitch (%s) {" % (pad, self.expr(s[1])))
                for val, blk in s[2]:
                    out.append("%s  %s: {" % (pad, "default" if val is None else "case %s" % kexpr_text(label_kexpr(val))))
                    self.stmts(blk, ind + 2, out)
                    out.append("%s  } break;" % pad)
                out.append("%s}" % pad)
            elif k == "ret":
                out.append("%sreturn%s;" % (pad, "" if s[1] is None else " " + self.expr(s[1])))
            elif k == "callstmt":
                out.append("%s%s(%s);" % (pad, s[1], ", ".join(self.expr(a) for a in s[2])))
            else:
                raise ValueError(s)

    def init(self, t, x):
        if kind(t) == "arr":
            return "{%s}" % ", ".join(self.init(t[1], y) for y in x)
        if kind(t) == "struct":
            fields = struct_of(self.p, t[1])["fields"]
            return "{%s}" % ", ".join(".%s = %s" % (f[0], self.init(f[1], y)) for f, y in zip(fields, x))
        return self.expr(x)

    def proto(self, f):
        params = ", ".join(self.declarator(t, n) for n, t in f["params"]) or "void"
        return "%s %s(%s)" % ("void" if f["ret"] == "void" else CNAME[f["ret"]], f["name"], params)

    def unit_body(self, calls, tag):
        """definitions of one program plus `static void run_<tag>(void)`, which performs the calls and prints
        `R <tag> <k> <return value>` and `G <tag> <k> <global leaf values>` per call (marker `@<tag> <k>` on stderr)"""
        p = self.p
        out = []
        renames = [s["name"] for s in p["structs"]] + [g["name"] for g in p["globals"]] + [f["name"] for f in p["funcs"]]
        for n in renames:
            out.append("#define %s P%s_%s" % (n, tag, n))
        for s in p["structs"]:
            out.append("typedef struct { %s } %s;" % (" ".join("%s;" % self.declarator(ft, fn) for fn, ft in s["fields"]), s["name"]))
        for c in p["consts"]:
            # int arithmetic on non-negative literals and earlier consts; gcc folds it as an integer constant expression
            out.append("#define %s ((%s)(%s))" % (c["name"], CNAME[c["ty"]], kexpr_text(c["val"])))
        for g in p["globals"]:
            out.append("%s;" % self.declarator(g["ty"], g["name"]))
        for f in p["funcs"]:
            out.append(self.proto(f) + ";")
        for f in p["funcs"]:
            out.append(self.proto(f))
            out.append("{")
            self.stmts(f["body"], 1, out)
            out.append("}")
        out.append("static void reset_%s(void) {" % tag)
        for g in p["globals"]:
            lv = leaves(p, g["ty"], g["name"])
            vals = ginit_values(g) or [0] * len(lv)
            for (path, lt), v in zip(lv, vals):
                out.append("  %s = ((%s)(%s));" % (path, CNAME[lt], kexpr_text(v, True)))
        out.append("}")
        out.append("static void dump_%s(int k) {" % tag)
        out.append('  printf("G %s %%d", k);' % tag)
        for g in p["globals"]:
            for path, lt in leaves(p, g["ty"], g["name"]):
                if lt == "u64":
                    out.append('  printf(" %%llu", (unsigned long long)%s);' % path)
                else:
                    out.append('  printf(" %%lld", (long long)%s);' % path)
        out.append('  printf("\\n");')
        out.append("}")
        out.append("static void run_%s(void) {" % tag)
        fn = {f["name"]: f for f in p["funcs"]}
        for k, (name, args) in enumerate(calls):
            f = fn[name]
            a = ", ".join(c_const(t, norm(t, v)) for (_, t), v in zip(f["params"], args))
            out.append('  reset_%s(); fflush(stdout); fprintf(stderr, "@%s %d\\n"); fflush(stderr);' % (tag, tag, k))
            if f["ret"] == "void":
                out.append('  %s(%s); printf("R %s %d void\\n");' % (name, a, tag, k))
            elif f["ret"] == "u64":
                out.append('  { unsigned long long r = (unsigned long long)%s(%s); printf("R %s %d %%llu\\n", r); }' % (name, a, tag, k))
            else:
                out.append('  { long long r = (long long)%s(%s); printf("R %s %d %%lld\\n", r); }' % (name, a, tag, k))
            out.append("  dump_%s(%d);" % (tag, k))
        out.append("}")
        for c in p["consts"]:
            out.append("#undef %s" % c["name"])
        for n in renames:
            out.append("#undef %s" % n)
        return out


def render_c(items):
    """One C translation unit for [(program, calls)]; program number i gets the tag str(i)."""
    out = ["#include <stdint.h>", "#include <stdio.h>"]
    for i, (prog, calls) in enumerate(items):
        out += CRenderer(prog).unit_body(calls, str(i))
    out.append("int main(void) {")
    for i in range(len(items)):
        out.append("  run_%d();" % i)
    out.append("  fflush(stdout);")
    out.append("  return 0;")
    out.append("}")
    return "\n".join(out) + "\n"


# ---------------------------------------------------------------------------
# direct evaluator


class UB(Exception):
    def __init__(self, reason):
        super().__init__(reason)
        self.reason = reason


class FloatConst(Exception):
    """(only with a model of the pinned tree's constant folding) a const whose folded value is a float is used"""


class _Return(Exception):
    def __init__(self, v):
        self.v = v


class Cell:
    __slots__ = ("v",)

    def __init__(self, v=None):
        self.v = v


def arith(t, op, a, b):
    bits = BITS[t]
    signed = is_signed(t)
    lo, hi = trange(t)
    if op in ("+", "-", "*"):
        r = a + b if op == "+" else a - b if op == "-" else a * b
        if signed and bits >= 32 and not lo <= r <= hi:
            raise UB("signed overflow")
    elif op in ("/", "%"):
        if b == 0:
            raise UB("division by zero")
        if signed and a == lo and b == -1:
            raise UB("MIN / -1")
        q = abs(a) // abs(b)
        if (a < 0) != (b < 0):
            q = -q
        r = q if op == "/" else a - q * b
    elif op == "&":
        r = a & b
    elif op == "|":
        r = a | b
    elif op == "^":
        r = a ^ b
    elif op in ("<<", ">>"):
        if not 0 <= b < bits:
            raise UB("shift count")
        if op == "<<":
            if signed:
                raise UB("left shift of a signed type")
            r = a << b
        else:
            r = a >> b
    else:
        raise ValueError(op)
    return norm(t, r)


def compare(op, a, b):
    return int({"==": a == b, "!=": a != b, "<": a < b, ">": a > b, "<=": a <= b, ">=": a >= b}[op])


class Interp:
    def __init__(self, prog, fuel=40000, max_depth=30, pythonic=False):
        self.p = prog
        self.funcs = {f["name"]: f for f in prog["funcs"]}
        self.pythonic = pythonic  # model of the pinned tree's constant folding (see const_values)
        self.consts = const_values(prog, pythonic)
        self.fuel0 = fuel
        self.max_depth = max_depth
        self.reset()

    def make(self, t, vals=None, pos=None):
        k = kind(t)
        if k in ("scalar", "ptr"):
            if vals is None:
                return Cell(None)
            v = vals[pos[0]]
            pos[0] += 1
            return Cell(norm(t, v))
        if k == "arr":
            return [self.make(t[1], vals, pos) for _ in range(t[2])]
        return {fn: self.make(ft, vals, pos) for fn, ft in struct_of(self.p, t[1])["fields"]}

    def reset(self):
        self.globals = {}
        for g in self.p["globals"]:
            n = len(leaves(self.p, g["ty"]))
            init = ginit_values(g)
            vals = [0] * n if init is None else [int(kexpr_value(v, self.consts, self.pythonic)) for v in init]
            self.globals[g["name"]] = self.make(g["ty"], vals, [0])
        self.steps = 0
        self.depth = 0

    def snapshot(self):
        out = []
        for g in self.p["globals"]:
            self._flat(self.globals[g["name"]], out)
        return out

    def _flat(self, o, out):
        if isinstance(o, Cell):
            out.append(o.v)
        elif isinstance(o, list):
            for x in o:
                self._flat(x, out)
        else:
            for x in o.values():
                self._flat(x, out)

    def tick(self):
        self.steps += 1
        if self.steps > self.fuel0:
            raise UB("fuel")

    def call(self, name, args):
        f = self.funcs[name]
        return self._call(f, [norm(t, v) for (_, t), v in zip(f["params"], args)])

    def _call(self, f, args):
        self.depth += 1
        if self.depth > self.max_depth:
            raise UB("recursion depth")
        env = {}
        for (n, t), v in zip(f["params"], args):
            env[n] = Cell(v)
        try:
            self.block(f["body"], env)
        except _Return as r:
            return r.v
        finally:
            self.depth -= 1
        if f["ret"] != "void":
            raise UB("function falls off its end")
        return None

    def lval(self, e, env):
        k = e[0]
        if k == "var":
            o = env.get(e[2])
            if o is None:
                o = self.globals[e[2]]
            return o
        if k == "idx":
            base = self.lval(e[2], env)
            i = self.ev(e[3], env)
            if not 0 <= i < len(base):
                raise UB("index out of range")
            return base[i]
        if k == "fld":
            return self.lval(e[2], env)[e[3]]
        if k == "deref":
            return self.ev(e[2], env)
        raise ValueError(e)

    def ev(self, e, env):
        self.tick()
        k = e[0]
        if k in ("var", "idx", "fld", "deref"):
            o = self.lval(e, env)
            if not isinstance(o, Cell) or o.v is None:
                raise UB("read of an uninitialised or non-scalar object")
            return o.v
        if k == "lit":
            return norm(e[1], e[2])
        if k == "blit":
            return e[2]
        if k == "const":
            v = self.consts[e[2]]
            if isinstance(v, float):
                raise FloatConst(e[2])
            return v
        if k == "sizeof":
            t = e[2]
            return 8 if kind(t) == "ptr" else size_of(self.p, t)
        if k == "addr":
            return self.lval(e[2], env)
        if k == "un":
            a = self.ev(e[3], env)
            if e[2] == "+":
                return a
            t = e[1]
            if is_signed(t) and BITS[t] >= 32 and a == trange(t)[0]:
                raise UB("signed overflow")
            return norm(t, -a)
        if k == "bin":
            a = self.ev(e[3], env)
            b = self.ev(e[4], env)
            return arith(e[1], e[2], a, b)
        if k == "cast":
            return norm(e[1], self.ev(e[2], env))
        if k == "cmp":
            a = self.ev(e[3], env)
            b = self.ev(e[4], env)
            return compare(e[2], a, b)
        if k == "and":
            return int(bool(self.ev(e[2], env)) and bool(self.ev(e[3], env)))
        if k == "or":
            return int(bool(self.ev(e[2], env)) or bool(self.ev(e[3], env)))
        if k == "not":
            return int(not self.ev(e[2], env))
        if k == "call":
            args = [self.ev(a, env) for a in e[3]]
            return self._call(self.funcs[e[2]], args)
        raise ValueError(e)

    def assign(self, s, env):
        cell = self.lval(s[1], env)
        v = self.ev(s[3], env)
        if s[2] != "=":
            if cell.v is None:
                raise UB("read of an uninitialised object")
            v = arith(s[1][1], s[2][:-1], cell.v, v)
        cell.v = v

    def init_values(self, t, x, env, out):
        if kind(t) == "arr":
            for y in x:
                self.init_values(t[1], y, env, out)
        elif kind(t) == "struct":
            for (_, ft), y in zip(struct_of(self.p, t[1])["fields"], x):
                self.init_values(ft, y, env, out)
        else:
            out.append(self.ev(x, env))

    def block(self, body, env):
        for s in body:
            self.tick()
            k = s[0]
            if k == "decl":
                t = s[2]
                if kind(t) in ("scalar", "ptr"):
                    env[s[1]] = Cell(self.ev(s[3], env))
                else:
                    vals = []
                    self.init_values(t, s[3], env, vals)
                    env[s[1]] = self.make(t, vals, [0])
            elif k == "assign":
                self.assign(s, env)
            elif k == "if":
                self.block(s[2] if self.ev(s[1], env) else s[3], env)
            elif k == "while":
                while self.ev(s[1], env):
                    self.block(s[2], env)
            elif k == "for":
                self.assign(s[1], env)
                while self.ev(s[2], env):
                    self.block(s[4], env)
                    self.assign(s[3], env)
            elif k == "switch":
                v = self.ev(s[1], env)
                chosen = None
                for val, blk in s[2]:
                    if val is not None:
                        cv = kexpr_value(label_kexpr(val), self.consts, self.pythonic)
                        if isinstance(cv, float):
                            raise FloatConst(str(val))
                        if cv == v:
                            chosen = blk
                            break
                if chosen is None:
                    for val, blk in s[2]:
                        if val is None:
                            chosen = blk
                self.block(chosen, env)
            elif k == "ret":
                raise _Return(None if s[1] is None else self.ev(s[1], env))
            elif k == "callstmt":
                args = [self.ev(a, env) for a in s[2]]
                self._call(self.funcs[s[1]], args)
            else:
                raise ValueError(s)


def evaluate(prog, calls, fuel=40000, pythonic=False):
    """[(ret, [global leaf values], steps) | UB instance | FloatConst instance] per call, each from the initial globals."""
    it = Interp(prog, fuel, pythonic=pythonic)
    out = []
    for name, args in calls:
        it.reset()
        try:
            r = it.call(name, args)
            out.append((r, it.snapshot(), it.steps))
        except UB as u:
            out.append(u)
        except FloatConst as u:
            out.append(u)
        except RecursionError:
            out.append(UB("python recursion"))
    return out


# ---------------------------------------------------------------------------
# features (class histogram, non-triviality, finding predicates)


def walk(node, fn):
    """Call fn(node) for every list node that starts with a string tag."""
    if isinstance(node, list):
        if node and isinstance(node[0], str):
            fn(node)
        for x in node:
            walk(x, fn)


def features(prog):
    fs = set()
    by_name = {f["name"]: f for f in prog["funcs"]}

    def visit(n):
        k = n[0]
        if k == "bin" and len(n) == 5 and is_scalar(n[1]) and n[1] in BITS:
            t = n[1]
            if BITS[t] < 32:
                fs.add("narrow_arith")
            if BITS[t] == 64:
                fs.add("arith64")
            if n[2] in ("<<", ">>"):
                fs.add("shift")
                if n[2] == ">>" and is_signed(t):
                    fs.add("signed_shr")
            if n[2] in ("/", "%"):
                fs.add("divmod")
                if is_signed(t):
                    fs.add("signed_divmod")
        elif k == "cmp" and len(n) == 5:
            t = n[3][1] if isinstance(n[3], list) and len(n[3]) > 1 else None
            if isinstance(t, str) and t in BITS:
                if BITS[t] < 32:
                    fs.add("narrow_cmp")
                if not is_signed(t):
                    fs.add("unsigned_cmp")
                if t == "bool":
                    fs.add("bool_cmp")
        elif k == "un" and len(n) == 4:
            fs.add("unary_" + ("minus" if n[2] == "-" else "plus"))
            if n[2] == "-" and isinstance(n[1], str) and BITS.get(n[1], 32) < 32:
                fs.add("narrow_arith")
        elif k == "cast" and len(n) >= 3:
            fs.add("implicit_cast" if len(n) > 3 and n[3] else "cast")
        elif k in ("and", "or", "not") and len(n) >= 3:
            fs.add("logic")
        elif k in ("switch", "while", "for", "if") and len(n) >= 3 and isinstance(n[-1], list):
            fs.add(k)
        elif k == "deref":
            fs.add("pointer")
        elif k == "addr":
            fs.add("address_of")
        elif k == "fld":
            fs.add("struct_field")
        elif k == "idx":
            fs.add("array_index")
        elif k == "call" and len(n) == 4 and isinstance(n[3], list):
            fs.add("call")
        elif k == "callstmt":
            fs.add("call_void")
        elif k == "assign" and len(n) == 4 and n[2] != "=":
            fs.add("compound_assign")
            if isinstance(n[1], list) and isinstance(n[1][1], str) and BITS.get(n[1][1], 32) < 32:
                fs.add("narrow_arith")
        elif k == "const" and len(n) == 3:
            fs.add("const")
        elif k == "sizeof" and len(n) == 3:
            fs.add("sizeof")
        elif k == "decl" and len(n) == 4 and not is_scalar(n[2]):
            fs.add("local_" + n[2][0])

    for f in prog["funcs"]:
        walk(f["body"], visit)

        def rec(n, f=f):
            if n[0] in ("call", "callstmt") and f["name"] in n[1:3]:
                fs.add("recursion")
            if n[0] in ("and", "or") and len(n) == 4:
                for x in n[2:]:
                    if isinstance(x, list) and x and x[0] == "not":
                        x = x[2]
                    if isinstance(x, list) and x and x[0] == "call" and not by_name[x[2]]["pure"]:
                        fs.add("impure_call_in_condition")
                a, b = n[2], n[3]
                if isinstance(a, list) and a[0] == "cmp" and isinstance(b, list) and b[0] == "cmp" and isinstance(b[3], list) \
                        and b[3][0] == "bin" and b[3][2] in ("/", "%") and b[3][4] == a[3]:
                    fs.add("short_circuit_guard")

        walk(f["body"], rec)
    for c in prog["consts"]:
        if kexpr_ops(c["val"]):
            fs.add("const_expression")
    if constant_divmod(prog):
        fs.add("const_divmod")
    if bool_global_init(prog):
        fs.add("global_bool_init")
    if prog.get("typedefs"):
        fs.add("typedef")
    for sd in prog["structs"]:
        if any(not is_scalar(ft) for _, ft in sd["fields"]):
            fs.add("nested_aggregate")
    return fs


def nontrivial(fs):
    return bool(fs & {"narrow_arith", "narrow_cmp", "switch", "while", "for"})


def count_nodes(prog):
    n = [0]

    def visit(_):
        n[0] += 1

    for f in prog["funcs"]:
        walk(f["body"], visit)
    return n[0]


# ---------------------------------------------------------------------------
# Hypothesis generator


class Profile:
    def __init__(self, max_funcs=4, max_stmts=5, expr_depth=3, block_depth=3, max_vectors=4, max_nest=7, exclude=()):
        self.max_nest = max_nest
        self.max_funcs = max_funcs
        self.max_stmts = max_stmts
        self.expr_depth = expr_depth
        self.block_depth = block_depth
        self.max_vectors = max_vectors
        self.exclude = set(exclude)  # names of excluded shapes (one per open finding), see vf/props/c37.py


BOUNDARY = [0, 1, 2, 3, 4, 5, 7, 8, 10, 15, 16, 31, 32, 63, 64, 100, 127, 128, 129, 200, 255, 256, 257, 1000, 32767, 32768,
            65535, 65536, 1 << 24, LITMAX - 1, LITMAX]


class _Var:
    __slots__ = ("name", "ty", "root", "ro", "target_root")

    def __init__(self, name, ty, root, ro=False, target_root=None):
        self.name = name
        self.ty = ty
        self.root = root  # "global" | "local"
        self.ro = ro  # loop counters: never assigned by generated statements
        self.target_root = target_root  # pointers: what they point into


class _Gen:
    def __init__(self, draw, prof):
        self.draw = draw
        self.prof = prof
        self.excluded = {}
        self.uid = 0
        self.prog = {"alias": {}, "structs": [], "consts": [], "globals": [], "funcs": []}
        self.gvars = []
        self.scopes = []
        self.fn = None  # function being generated
        self.loop_depth = 0
        self.nest = 0

    # -- draws ---------------------------------------------------------------
    def pick(self, seq):
        # an index draw, not sampled_from: the elements may be closures, whose repr (an address) would otherwise enter
        # Hypothesis' bookkeeping and make the search depend on the memory layout
        seq = list(seq)
        return seq[self.draw(st.integers(0, len(seq) - 1))]

    def wpick(self, pairs):
        items = []
        for w, it in pairs:
            items += [it] * w
        return self.pick(items)

    def integer(self, lo, hi):
        return self.draw(st.integers(lo, hi))

    def chance(self, num, den):
        return self.integer(1, den) <= num

    def fresh(self, prefix):
        self.uid += 1
        return "%s%d" % (prefix, self.uid)

    def excl(self, name):
        """True when the shape `name` is excluded (open finding); counts the steering."""
        if name in self.prof.exclude:
            self.excluded[name] = self.excluded.get(name, 0) + 1
            return True
        return False

    # -- values --------------------------------------------------------------
    def lit_value(self, t):
        """an `int` literal whose value, cast to t, is boundary biased"""
        lo, hi = trange(t)
        lo, hi = max(lo, -LITMAX), min(hi, LITMAX)
        how = self.integer(0, 9)
        if how <= 4:
            v = self.pick(BOUNDARY)
            if self.chance(1, 4):
                v = -v
        elif how <= 6:
            v = self.integer(-9, 9)
        elif how == 7:
            v = self.pick([lo, hi, lo + 1, hi - 1])
        else:
            v = self.integer(lo, hi)
        if self.chance(9, 10):
            v = min(max(v, lo), hi)  # in range of t: no truncation in the cast
        return max(-LITMAX, min(LITMAX, v))

    def lit(self, t, v=None):
        if t == "bool":
            return ["blit", "bool", self.integer(0, 1) if v is None else v]
        return ["lit", t, self.lit_value(t) if v is None else v]

    def arg_value(self, t):
        lo, hi = trange(t)
        if t == "bool":
            return self.integer(0, 1)
        how = self.integer(0, 9)
        if how <= 3:
            v = self.pick(BOUNDARY)
            if is_signed(t) and self.chance(1, 3):
                v = -v
        elif how <= 5:
            v = self.integer(-5, 12)
        elif how == 6:
            v = self.pick([lo, hi, lo + 1, hi - 1])
        else:
            v = self.integer(lo, hi)
        return min(max(v, lo), hi)

    # -- scope ---------------------------------------------------------------
    def visible(self):
        out = list(self.gvars)
        for sc in self.scopes:
            out += sc
        return out

    def declare(self, var):
        self.scopes[-1].append(var)

    def writable_root(self, root):
        return not (self.fn["pure"] and root != "local")

    def inside(self, base, ty, want, out, depth=0):
        """thunks for every sub-object of type `want` inside the object that the thunk `base` designates"""
        if ty == want:
            out.append(base)
            return
        k = kind(ty)
        if k == "struct":
            for fn_, ft in struct_of(self.prog, ty[1])["fields"]:
                self.inside(lambda base=base, fn_=fn_, ft=ft: ["fld", ft, base(), fn_], ft, want, out, depth + 1)
        elif k == "arr":
            et, n = ty[1], ty[2]
            self.inside(lambda base=base, et=et, n=n: ["idx", et, base(), self.index(n)], et, want, out, depth + 1)

    def places(self, t, write):
        """Thunks producing an LVAL of scalar/struct type t from the visible variables."""
        out = []
        for v in self.visible():
            vt = v.ty
            if kind(vt) == "ptr":
                if write and not self.writable_root(v.target_root):
                    continue
                self.inside(lambda vt=vt, v=v: ["deref", vt[1], ["var", vt, v.name]], vt[1], t, out)
                continue
            if write and (v.ro or not self.writable_root(v.root)):
                continue
            self.inside(lambda vt=vt, v=v: ["var", vt, v.name], vt, t, out)
        return out

    def place_root(self, lv):
        """root ("global"/"local") of the object an LVAL designates"""
        while lv[0] in ("idx", "fld"):
            lv = lv[2]
        if lv[0] == "deref":
            name = lv[2][2]
        else:
            name = lv[2]
        for v in self.visible():
            if v.name == name:
                return v.target_root if kind(v.ty) == "ptr" else v.root
        raise KeyError(name)

    def index(self, n):
        # the C3 type checker re-checks an operand after coercing it (typechecker.do_coerce), so its running time
        # doubles with every nesting level of binary operators, indices and arguments: nesting is bounded
        if n == 1 or self.nest + 2 >= self.prof.max_nest or self.chance(1, 2):
            return ["lit", "i32", self.integer(0, n - 1)]
        self.nest += 2
        try:
            e = self.expr("i32", 1)
        finally:
            self.nest -= 2
        if n & (n - 1) == 0:
            return ["bin", "i32", "&", e, ["lit", "i32", n - 1]]
        return ["cast", "i32", ["bin", "u32", "%", ["cast", "u32", e, False], ["lit", "u32", n]], False]

    # -- expressions ---------------------------------------------------------
    def leaf(self, t):
        opts = [(2, "lit")]
        pl = self.places(t, False)
        if pl:
            opts.append((8, "place"))
        elif t in INT_TYPES:
            # nothing of this type in sight: read something else through a cast rather than yet another literal
            others = [s for s in INT_TYPES if s != t and self.places(s, False)]
            if others and self.chance(3, 4):
                s = self.pick(others)
                return ["cast", t, self.pick(self.places(s, False))(), False]
        cs = [c for c in self.prog["consts"] if c["ty"] == t]
        if cs:
            opts.append((1, "const"))
        if t == "i32" and self.chance(1, 300):
            st_ = self.scalar_type()
            return ["sizeof", "i32", self.wpick([(3, st_), (1, ["ptr", st_]), (1, ["arr", st_, self.integer(1, 5)])])]
        how = self.wpick(opts)
        if how == "place":
            return self.pick(pl)()
        if how == "const":
            return ["const", t, self.pick(cs)["name"]]
        return self.lit(t)

    def pure_callees(self, t):
        return [f for f in self.prog["funcs"] if f["pure"] and f["ret"] == t]

    def call_args(self, f):
        args = []
        for _, pt in f["params"]:
            if kind(pt) == "ptr":
                args.append(self.pointer_to(pt[1], need_write=True))
            else:
                args.append(self.coerced(pt, 1))
        return args

    def coerced(self, t, d):
        """expression of type t for an assignment-like site; sometimes through an implicit coercion"""
        if t in INT_TYPES and self.chance(1, 8) and not self.excl("implicit_cast"):
            srcs = [s for s in INT_TYPES if s != t and implicit_ok(s, t)]
            if srcs:
                s = self.pick(srcs)
                return ["cast", t, self.expr(s, max(d - 1, 0)), True]
        return self.expr(t, d)

    def expr(self, t, d):
        self.nest += 1
        try:
            if self.nest >= self.prof.max_nest:
                d = 0
            return self.bexpr(d) if t == "bool" else self.iexpr(t, d)
        finally:
            self.nest -= 1

    def iexpr(self, t, d):
        if d <= 0:
            return self.leaf(t)
        opts = [(3, "leaf"), (6, "bin"), (1, "un"), (2, "cast")]
        if self.pure_callees(t):
            opts.append((2, "call"))
        how = self.wpick(opts)
        if how == "leaf":
            return self.leaf(t)
        if how == "un":
            return ["un", t, self.wpick([(4, "-"), (1, "+")]), self.expr(t, d - 1)]
        if how == "cast":
            s = self.pick([x for x in INT_TYPES if x != t])
            return ["cast", t, self.expr(s, d - 1), False]
        if how == "call":
            f = self.pick(self.pure_callees(t))
            return ["call", t, f["name"], self.call_args(f)]
        ops = [o for o in ARITH if not (o == "<<" and is_signed(t))]
        op = self.pick(ops)
        a = self.expr(t, d - 1)
        if op in ("/", "%"):
            if self.chance(2, 3):
                v = 0
                while v == 0:
                    v = self.lit_value(t)
                    if norm(t, v) == 0:
                        v = 0
                b = ["lit", t, v]
            else:
                b = ["bin", t, "|", self.expr(t, d - 1), ["lit", t, 1]]
        elif op in ("<<", ">>"):
            if self.chance(1, 2):
                b = ["lit", t, self.integer(0, BITS[t] - 1)]
            else:
                b = ["bin", t, "&", self.expr(t, d - 1), ["lit", t, BITS[t] - 1]]
        elif op == "*" and is_signed(t) and BITS[t] >= 32 and self.chance(3, 4):
            b = ["lit", t, self.integer(-3, 9)]
        else:
            b = self.expr(t, d - 1)
        return ["bin", t, op, a, b]

    def bexpr(self, d):
        self.nest += 1
        try:
            return self.bexpr1(d if self.nest < self.prof.max_nest else 0)
        finally:
            self.nest -= 1

    def bexpr1(self, d):
        if d <= 0:
            opts = [(1, "lit")]
            pl = self.places("bool", False)
            if pl:
                opts.append((4, "place"))
            if self.wpick(opts) == "place":
                return self.pick(pl)()
            return self.lit("bool")
        opts = [(8, "cmp"), (2, "and"), (2, "or"), (2, "not"), (2, "leaf"), (2, "guard")]
        if self.pure_callees("bool"):
            opts.append((2, "call"))
        how = self.wpick(opts)
        if how == "leaf":
            return self.bexpr(0)
        if how == "guard":
            # only short-circuit evaluation keeps the division away from a zero divisor
            t = self.wpick([(3, "i32"), (2, "u8"), (1, "i8"), (1, "i16"), (1, "u16"), (1, "u32"), (1, "i64"), (1, "u64")])
            y = self.leaf(t)
            div = ["bin", t, self.pick(["/", "%"]), self.expr(t, d - 1), y]
            c = ["cmp", "bool", self.pick(CMPS), div, self.leaf(t)]
            if self.chance(1, 2):
                return ["and", "bool", ["cmp", "bool", "!=", y, ["lit", t, 0]], c]
            return ["or", "bool", ["cmp", "bool", "==", y, ["lit", t, 0]], c]
        if how == "call":
            f = self.pick(self.pure_callees("bool"))
            return ["call", "bool", f["name"], self.call_args(f)]
        if how == "not":
            return ["not", "bool", self.bexpr(d - 1)]
        if how in ("and", "or"):
            return [how, "bool", self.bexpr(d - 1), self.bexpr(d - 1)]
        if self.chance(1, 10):
            return ["cmp", "bool", self.pick(["==", "!="]), self.bexpr(d - 1), self.bexpr(d - 1)]
        t = self.wpick([(3, "i32"), (2, "u8"), (1, "i8"), (1, "i16"), (1, "u16"), (1, "u32"), (1, "i64"), (1, "u64")])
        if self.chance(1, 5) and not self.excl("implicit_cast"):
            # operands of DIFFERENT types: the type checker coerces both to their common type (context.get_common_type:
            # signed if either is signed, the wider width; `byte < 256` compares as int).  Only pairs whose coercions
            # do_coerce inserts by itself (implicit_ok); an integer literal is an `int`.
            s = self.pick([x for x in INT_TYPES if x != t])
            ct = common_type(s, t)
            if all(x == ct or implicit_ok(x, ct) for x in (s, t)):
                a = self.expr(s, d - 1)
                if t == "i32" and self.chance(2, 3):
                    lo, hi = trange(s)
                    edge = [v for v in (hi, hi + 1, hi + 2, hi - 1, lo, lo - 1, lo + 1) if -LITMAX <= v <= LITMAX]
                    b = ["lit", "i32", self.pick(edge) if edge and self.chance(1, 2) else self.lit_value("i32")]
                else:
                    b = self.expr(t, d - 1)
                a = a if s == ct else ["cast", ct, a, True]
                b = b if t == ct else ["cast", ct, b, True]
                if self.chance(1, 2):
                    a, b = b, a
                return ["cmp", "bool", self.pick(CMPS), a, b]
        return ["cmp", "bool", self.pick(CMPS), self.expr(t, d - 1), self.expr(t, d - 1)]

    def cond(self, d):
        """condition of an if: sometimes with a call to an impure bool function as an operand of and/or/not, whose
        execution (or not) is visible in the globals"""
        f = self.fn
        cands = [g for g in self.prog["funcs"] if not g["pure"] and g["ret"] == "bool"]
        if f["pure"] or not cands or self.chance(1, 4):
            return self.bexpr(d)
        g = self.pick(cands)
        args = self.call_args(g)
        if any(a is None for a in args):
            return self.bexpr(d)
        call = ["call", "bool", g["name"], args]
        if self.chance(1, 3):
            call = ["not", "bool", call]
        other = self.bexpr(d - 1)
        form = self.integer(0, 4)
        if form == 0:
            return call
        if form in (1, 2):
            return ["and" if form == 1 else "or", "bool", other, call]
        return ["and" if form == 3 else "or", "bool", call, other]

    def pointer_to(self, t, need_write=False):
        """EXPR of type ptr(t): an existing pointer variable or the address of a place"""
        cands = [v for v in self.visible() if v.ty == ["ptr", t] and (not need_write or self.writable_root(v.target_root))]
        pl = self.places(t, need_write)
        pl = [p for p in pl]
        if cands and (not pl or self.chance(1, 3)):
            v = self.pick(cands)
            return ["var", v.ty, v.name]
        if not pl:
            return None
        lv = self.pick(pl)()
        if lv[0] == "deref":
            return lv[2]  # &*p is p
        return ["addr", ["ptr", t], lv]

    # -- statements ----------------------------------------------------------
    def scalar_type(self):
        return self.wpick([(5, "i32"), (3, "u8"), (2, "bool"), (1, "i8"), (1, "i16"), (1, "u16"), (1, "u32"), (1, "i64"), (1, "u64")])

    def block(self, d, nmax, tail=None):
        """tail: callable producing the closing statements (generated inside the block's scope)"""
        self.scopes.append([])
        out = []
        n = self.integer(1, nmax)
        for _ in range(n):
            ss = self.statement(d)
            out += ss
            if ss and ss[-1][0] == "ret":
                break
        if tail and not (out and out[-1][0] == "ret"):
            out += tail()
        self.scopes.pop()
        return out

    def statement(self, d):
        f = self.fn
        opts = [(5, "assign"), (3, "decl"), (2, "compound")]
        if d > 0:
            opts += [(3, "if"), (2, "switch")]
            if self.loop_depth < 2:
                opts += [(2, "while"), (2, "for")]
            if d < self.prof.block_depth:
                opts.append((1, "early_ret"))
        opts += [(1, "decl_agg"), (1, "decl_ptr")]
        if not f["pure"] and any(not g["pure"] for g in self.prog["funcs"]):
            opts.append((3, "impure_call"))
            if d > 0 and any(not g["pure"] and g["ret"] == "bool" for g in self.prog["funcs"]):
                opts.append((3, "if"))
        how = self.wpick(opts)
        ed = self.prof.expr_depth
        if how in ("assign", "compound"):
            t = self.scalar_type()
            pl = self.places(t, True)
            if not pl:
                how = "decl"
            else:
                lv = self.pick(pl)()
                if how == "compound" and t != "bool":
                    op = self.pick(["+=", "-=", "*=", "|=", "&="])
                    if op == "*=" and is_signed(t) and BITS[t] >= 32:
                        return [["assign", lv, op, ["lit", t, self.integer(-3, 5)]]]
                    return [["assign", lv, op, self.coerced(t, ed - 1)]]
                return [["assign", lv, "=", self.coerced(t, ed)]]
        if how == "decl":
            t = self.scalar_type()
            name = self.fresh("v")
            s = ["decl", name, t, self.coerced(t, ed)]
            self.declare(_Var(name, t, "local"))
            return [s]
        if how == "decl_agg":
            name = self.fresh("a")
            if self.prog["structs"] and self.chance(1, 2):
                t = ["struct", self.pick(self.prog["structs"])["name"]]
            else:
                t = self.arr_type(self.scalar_type(), 4)
                if self.chance(1, 5):
                    t = ["arr", ["arr", t[1], self.integer(1, 2)], self.integer(1, 3)]
            s = ["decl", name, t, self.agg_init(t)]
            self.declare(_Var(name, t, "local"))
            return [s]
        if how == "decl_ptr":
            t = self.scalar_type()
            if self.prog["structs"] and self.chance(1, 3):
                t = ["struct", self.pick(self.prog["structs"])["name"]]
            # write=True: never a loop counter, and pure functions only point into their own locals
            pl = self.places(t, True)
            if not pl:
                return []
            lv = self.pick(pl)()
            if lv[0] == "deref":
                return []
            name = self.fresh("p")
            root = self.place_root(lv)
            s = ["decl", name, ["ptr", t], ["addr", ["ptr", t], lv]]
            self.declare(_Var(name, ["ptr", t], "local", ro=True, target_root=root))
            return [s]
        if how == "if":
            c = self.cond(ed)
            a = self.block(d - 1, self.prof.max_stmts - 1)
            b = self.block(d - 1, self.prof.max_stmts - 1) if self.chance(1, 2) else []
            return [["if", c, a, b]]
        if how == "early_ret":
            c = self.bexpr(ed - 1)
            return [["if", c, self.block(0, 2, tail=lambda: [self.ret_stmt()]), []]]
        if how == "switch":
            sel = self.expr("i32", ed - 1)
            if self.chance(2, 3):
                sel = ["bin", "i32", "&", sel, ["lit", "i32", self.pick([3, 7])]]
            ncase = self.integer(1, 4)
            vals = []
            pool = list(range(0, 9)) + [c["name"] for c in self.prog["consts"] if c["ty"] == "i32"]
            cvals = const_values(self.prog)
            seen = set()
            for _ in range(ncase):
                v = self.pick(pool)
                if self.chance(1, 6):
                    v = self.kexpr("i32", 1)
                num = kexpr_value(label_kexpr(v), cvals)
                if num in seen:
                    continue
                seen.add(num)
                vals.append(v)
            options = [[v, self.block(d - 1, 2)] for v in vals]
            pos = self.integer(0, len(options))
            if pos != len(options) and self.excl("switch_default_not_last"):
                pos = len(options)
            options.insert(pos, [None, self.block(d - 1, 2)])
            return [["switch", sel, options]]
        if how in ("while", "for"):
            ctr = self.fresh("i")
            cv = ["var", "i32", ctr]
            k = self.integer(1, 4)
            down = self.chance(1, 3)
            start, cond = (k, ["cmp", "bool", ">", cv, ["lit", "i32", 0]]) if down else (0, ["cmp", "bool", "<", cv, ["lit", "i32", k]])
            if self.chance(1, 3):
                extra = self.bexpr(1)
                cond = ["and", "bool", cond, extra] if self.chance(2, 3) else ["and", "bool", extra, cond]
            stepform = self.integer(0, 2)
            one = ["lit", "i32", 1]
            if stepform == 0:
                step = ["assign", cv, "-=" if down else "+=", one]
            elif stepform == 1:
                step = ["assign", cv, "=", ["bin", "i32", "-" if down else "+", cv, one]]
            else:
                step = ["assign", cv, "=", ["bin", "i32", "+", cv, ["lit", "i32", -1 if down else 1]]]
            decl = ["decl", ctr, "i32", ["lit", "i32", start]]
            self.declare(_Var(ctr, "i32", "local", ro=True))
            self.loop_depth += 1
            if how == "while":
                body = self.block(d - 1, self.prof.max_stmts - 1, tail=lambda: [step])
                self.loop_depth -= 1
                return [decl, ["while", cond, body]]
            body = self.block(d - 1, self.prof.max_stmts - 1)
            self.loop_depth -= 1
            init = ["assign", cv, "=", ["lit", "i32", start]]
            return [decl, ["for", init, cond, step, body]]
        if how == "impure_call":
            callees = [g for g in self.prog["funcs"] if not g["pure"]]
            g = self.pick(callees)
            args = self.call_args(g)
            if any(a is None for a in args):
                return []
            if g["ret"] == "void":
                return [["callstmt", g["name"], args]]
            call = ["call", g["ret"], g["name"], args]
            simple = [v for v in self.visible() if v.ty == g["ret"] and not v.ro and self.writable_root(v.root)]
            if simple and self.chance(2, 3):
                v = self.pick(simple)
                return [["assign", ["var", v.ty, v.name], "=", call]]
            name = self.fresh("v")
            self.declare(_Var(name, g["ret"], "local"))
            return [["decl", name, g["ret"], call]]
        raise ValueError(how)

    def function_tail(self):
        if self.fn["ret"] != "void" and self.chance(1, 6):
            # no trailing return: the function ends in an if/else whose arms both return
            c = self.bexpr(self.prof.expr_depth - 1)
            a = self.block(0, 2, tail=lambda: [self.ret_stmt()])
            b = self.block(0, 2, tail=lambda: [self.ret_stmt()])
            return [["if", c, a, b]]
        return [self.ret_stmt()]

    def arr_type(self, et, nmax):
        n = self.integer(1, nmax)
        names = [k for k, v in sorted(const_values(self.prog).items()) if v == n]
        if names and self.chance(1, 2):
            return ["arr", et, n, self.pick(names)]
        return ["arr", et, n]

    def agg_init(self, t):
        if kind(t) == "arr":
            return [self.agg_init(t[1]) for _ in range(t[2])]
        if kind(t) == "struct":
            return [self.agg_init(ft) for _, ft in struct_of(self.prog, t[1])["fields"]]
        return self.coerced(t, 1)

    def ret_stmt(self):
        f = self.fn
        if f["ret"] == "void":
            return ["ret", None]
        return ["ret", self.coerced(f["ret"], self.prof.expr_depth)]

    # -- program -------------------------------------------------------------
    def program(self):
        p = self.prog
        p["alias"] = {"i32": self.pick(["int", "int", "int32_t"]), "u8": self.pick(["byte", "byte", "uint8_t"])}
        p["typedefs"] = []
        for i in range(self.integer(0, 2)):
            t = self.scalar_type()
            if t not in [x[1] for x in p["typedefs"]]:
                p["typedefs"].append(["T%d" % i, t])
                p["alias"][t] = "T%d" % i
        contains = {}  # struct name -> names of the struct types inside it (itself included)
        for i in range(self.integer(0, 3)):
            fields = []
            used = {"S%d" % i}
            for j in range(self.integer(1, 4)):
                how = self.wpick([(6, "scalar"), (1, "arr"), (1, "struct")])
                # ppci rejects a struct that contains the same struct type twice ("Recursive data type", see
                # notes/C37.md): such programs would only be discards, so they are not generated
                free = [sd["name"] for sd in p["structs"] if not (contains[sd["name"]] & used)]
                if how == "struct" and free:
                    ft = ["struct", self.pick(free)]
                    used |= contains[ft[1]]
                elif how == "arr":
                    ft = ["arr", self.scalar_type(), self.integer(1, 3)]
                else:
                    ft = self.scalar_type()
                fields.append(["m%d" % j, ft])
            p["structs"].append({"name": "S%d" % i, "fields": fields})
            contains["S%d" % i] = used
        for i in range(self.integer(0, 3)):
            t = self.pick(["i32", "i32", "u8"])
            p["consts"].append({"name": "K%d" % i, "ty": t, "val": self.kexpr(t, 2)})
        for i in range(self.integer(1, 5)):
            name = "g%d" % i
            how = self.wpick([(4, "scalar"), (2, "arr"), (1, "struct"), (1, "arrstruct")])
            if how in ("struct", "arrstruct") and not p["structs"]:
                how = "scalar"
            if how == "scalar":
                t = self.scalar_type()
            elif how == "arr":
                t = self.arr_type(self.scalar_type(), 5)
                if self.chance(1, 4):
                    t = ["arr", ["arr", t[1], self.integer(1, 3)], self.integer(1, 3)]
            elif how == "struct":
                t = ["struct", self.pick(p["structs"])["name"]]
            else:
                t = ["arr", ["struct", self.pick(p["structs"])["name"]], self.integer(1, 3)]
            lv = leaves(p, t)
            init = None
            if t == "bool" and self.chance(1, 2) and not self.excl("global_bool_init"):
                init = [["b", self.integer(0, 1)]]
            # C3 global initialisers are constant expressions; the front end evaluates them for int and byte only
            if all(lt in ("i32", "u8") for _, lt in lv) and self.chance(2, 3) and not self.excl("global_init"):
                init = [self.integer(0, 255) if lt == "u8" else self.pick(BOUNDARY) for _, lt in lv]
                for j in range(len(init)):
                    if self.chance(1, 5):
                        init[j] = self.kexpr("i32", 2)
            p["globals"].append({"name": name, "ty": t, "init": init})
            self.gvars.append(_Var(name, t, "global"))
        nf = self.integer(1, self.prof.max_funcs)
        for i in range(nf):
            last = i == nf - 1
            pure = self.chance(1, 3)
            params = []
            for j in range(self.integer(0, 3)):
                if not pure and not last and self.chance(1, 4):
                    t = self.scalar_type()
                    if p["structs"] and self.chance(1, 3):
                        t = ["struct", self.pick(p["structs"])["name"]]
                    params.append(["p%d_%d" % (i, j), ["ptr", t]])
                else:
                    params.append(["a%d_%d" % (i, j), self.scalar_type()])
            ret = self.scalar_type()
            if not pure:
                how = self.integer(0, 9)
                ret = "void" if how < 2 else "bool" if how < 5 else ret
            f = {"name": "f%d" % i, "ret": ret, "params": params, "pure": pure, "body": None}
            recursive = self.chance(1, 5)
            if recursive:
                params.insert(0, ["n%d" % i, "i32"])
            self.fn = f
            self.scopes = [[]]
            for n, t in params:
                ro = kind(t) == "ptr" or (recursive and n == "n%d" % i)
                self.scopes[0].append(_Var(n, t, "local", ro=ro, target_root="global" if kind(t) == "ptr" else None))
            self.loop_depth = 0
            rec = self.recursion(f) if recursive else None
            f["body"] = self.block(self.prof.block_depth, self.prof.max_stmts, tail=self.function_tail)
            if rec is not None:
                f["body"].insert(self.integer(0, min(2, len(f["body"]) - 1)), rec)
            p["funcs"].append(f)
        return p

    def kexpr(self, t, d):
        """constant expression with a small value (usable as a case label); the divisor is never zero"""
        vals = const_values(self.prog)
        if d <= 0 or self.chance(1, 3):
            if vals and self.chance(1, 3):
                return ["k", self.pick(sorted(vals))]
            return self.integer(0, 12) if t == "i32" or d < 2 else self.integer(0, 255)
        ops = ["+", "-", "*"]
        if not self.excl("const_divmod"):
            ops += ["/", "%", "/", "%"]
        op = self.pick(ops)
        a = self.kexpr(t, d - 1)
        b = self.kexpr(t, d - 1)
        if op in ("/", "%") and kexpr_value(b, vals) == 0:
            b = self.integer(1, 9)
        return ["kbin", op, a, b]

    def recursion(self, f):
        """`if (0 < n and n <= K) { return f(n - 1, ...); }` on the read-only first parameter: depth at most K"""
        nv = ["var", "i32", f["params"][0][0]]
        args = [["bin", "i32", "-", nv, ["lit", "i32", 1]]]
        for _, pt in f["params"][1:]:
            a = self.pointer_to(pt[1], need_write=True) if kind(pt) == "ptr" else self.coerced(pt, 1)
            if a is None:
                return None
            args.append(a)
        guard = ["and", "bool", ["cmp", "bool", ">", nv, ["lit", "i32", 0]], ["cmp", "bool", "<=", nv, ["lit", "i32", self.integer(1, 5)]]]
        if f["ret"] == "void":
            return ["if", guard, [["callstmt", f["name"], args]], []]
        return ["if", guard, [["ret", ["call", f["ret"], f["name"], args]]], []]

    def calls(self):
        out = []
        for f in self.prog["funcs"]:
            if all(is_scalar(t) for _, t in f["params"]):
                for _ in range(self.integer(2, self.prof.max_vectors) if f["params"] else 1):
                    out.append([f["name"], [self.arg_value(t) for _, t in f["params"]]])
        return out


def common_type(s, t):
    """context.get_common_type for two integer types: signed if either is signed, the wider of the two widths"""
    bits = max(BITS[s], BITS[t])
    return ("i" if is_signed(s) or is_signed(t) else "u") + str(bits)


def implicit_ok(s, t):
    """conversions the C3 type checker inserts by itself (typechecker.do_coerce), integer types only"""
    sb, tb = BITS[s], BITS[t]
    if is_signed(s) == is_signed(t):
        return sb <= tb
    if not is_signed(s):
        return sb < tb - 1
    return True  # signed -> unsigned: "for now, allow auto-cast"


@st.composite
def cases(draw, prof):
    g = _Gen(draw, prof)
    prog = g.program()
    calls = g.calls()
    return {"program": prog, "calls": calls, "excluded": g.excluded}
