"""Generator of well-formed ppci IR modules as JSON-able descriptions (DESIGN.md 3.2).

description = {
  "ptr_bits": 64,
  "globals":   [{"name", "size", "align", "init": None | [part...]}]   part = hex string | ["ref", symbol]
  "externals": [{"name", "args": [ty...], "ret": ty | None}],
  "functions": [{"name", "params": [[name, ty]...], "ret": ty | None, "bufs": {param: size},
                 "tailrec": bool, "layout": [block indices in emission order],
                 "blocks": [{"name", "ins": [instruction...]}]}]
}
instruction (list):
  ["const", n, ty, value]          value: int | float-as-hex-string ("f:<16 hex digits>")
  ["binop", n, ty, a, op, b]   ["unop", n, ty, op, a]   ["cast", n, ty, src]
  ["alloc", n, size, align]    ["addr", n, src]         ["literal", n, hex]
  ["load", n, ty, addr, volatile]  ["store", value, addr, volatile]   ["copy", dst, src, amount]
  ["call", n | None, ty | None, callee, [args]]          ["undef", n, ty]
  ["phi", n, ty, {pred block name: value}]
  ["jmp", b]  ["cjmp", a, cond, b, yes, no]  ["ret", v]  ["exit"]
Operands are names of local values, parameters, globals, functions or externals.
"""

import struct

from hypothesis import strategies as st

INT_TYPES = ["i8", "u8", "i16", "u16", "i32", "u32", "i64", "u64"]
FLOAT_TYPES = ["f32", "f64"]
BITS = {"i8": 8, "u8": 8, "i16": 16, "u16": 16, "i32": 32, "u32": 32, "i64": 64, "u64": 64, "f32": 32, "f64": 64}
INT_OPS = ["+", "-", "*", "/", "%", "|", "&", "^", "<<", ">>"]
ROT_OPS = ["rol", "ror"]
FLOAT_OPS = ["+", "-", "*", "/"]
CONDS = ["==", "<", ">", ">=", "<=", "!="]


class Profile:
    def __init__(
        self,
        name="full",
        int_types=INT_TYPES,
        float_types=FLOAT_TYPES,
        ptr_bits=64,
        rotates=True,
        unops=True,
        undef=False,
        literals=True,
        copyblob=True,
        ptr_int_casts=True,
        float_int_casts=True,
        volatile=True,
        indirect_calls=True,
        externals=True,
        tailrec=True,
        max_blocks=8,
        max_ins=10,
        max_funcs=3,
        permute_blocks=False,
        nonfinite=False,
        uninit_allocas=True,
        unguarded=True,
        global_refs=True,
        max_params=4,
        float_rem=False,
        observe=True,
        late_allocs=False,
        phi_liveout=False,
        distinct_cjmp_targets=False,
        obs_type=None,
        indirect_boost=0,
        observe_pct=0,
        swap_cjmp_arms=0,
        mixed_zero_signs=True,
        word_aligned_allocas=False,
        forbidden=(),
        long_block_pct=1,
        constexpr_pct=0,
        spin_cycle_pct=0,
        split_init=0,
        loop_local_pct=0,
        dup_args_pct=0,
        nonfinite_args=False,
    ):
        self.__dict__.update(locals())
        del self.__dict__["self"]
        self.forbidden = frozenset(tuple(x) for x in forbidden)

    def allowed(self, kind, ty, op="*"):
        return (kind, ty, op) not in self.forbidden


def target_profile(target, **kw):
    """Profile restricted to what ppci's code generator for `target` can compile (vf/data/optable.json)."""
    import json
    import os

    path = os.path.join(os.path.dirname(os.path.abspath(__file__)), "data", "optable.json")
    table = json.load(open(path)).get(target, [])
    return Profile(name=target, forbidden=table, **kw)


FULL = Profile()


def size_of(ty, ptr_bits):
    return ptr_bits // 8 if ty == "ptr" else BITS[ty] // 8


def is_float(ty):
    return ty in ("f32", "f64")


def is_signed(ty):
    return ty[0] == "i"


def fhex(x):
    return "f:" + struct.pack(">d", x).hex()


def unfhex(s):
    return struct.unpack(">d", bytes.fromhex(s[2:]))[0]


def int_range(ty):
    b = BITS[ty]
    return (-(1 << (b - 1)), (1 << (b - 1)) - 1) if is_signed(ty) else (0, (1 << b) - 1)


def int_consts(ty):
    lo, hi = int_range(ty)
    b = BITS[ty]
    special = [0, 1, 2, 3, 5, 7, hi, hi - 1, lo, lo + 1, 1 << (b - 2), (1 << (b - 2)) - 1, 0x55 & hi, 10, 100, 255 & hi]
    if is_signed(ty):
        special += [-1, -2, -3, -7, -128 if lo <= -128 else lo]
    special = [s for s in special if lo <= s <= hi]
    # values at the edges of immediate / displacement fields of the instruction sets (8, 12, 16, 32 bit)
    edges = [127, 128, 129, -127, -128, -129, 255, 256, 2047, 2048, 2049, -2047, -2048, -2049, 4095, 4096, 32767, 32768, -32768, -32769,
             65535, 65536, 2**31 - 1, 2**31, 2**31 + 1, -(2**31), -(2**31) - 1, 2**32 - 1, 2**32]
    edges = [e for e in edges if lo <= e <= hi]
    return st.one_of(st.sampled_from(special), st.sampled_from(edges), st.integers(lo, hi), st.integers(max(lo, -20), min(hi, 20)))


def _to_f32(x):
    if x != x or x in (float("inf"), float("-inf")):
        return x
    try:
        return struct.unpack("<f", struct.pack("<f", x))[0]
    except OverflowError:
        return 1e38 if x > 0 else -1e38


def float_consts(ty, nonfinite):
    vals = [0.0, -0.0, 1.0, -1.0, 0.5, 2.0, 3.0, -2.5, 10.0, 100.0, 1e6, -7.0, 0.1, 1.5, 255.0, 65536.0, 2147483648.0, -2147483649.0]
    if ty == "f64":
        vals += [1e15, 1e-3, 4294967296.0, 9007199254740993.0]
    if nonfinite:
        vals += [float("inf"), float("-inf"), float("nan"), 5e-324 if ty == "f64" else 1.401298464324817e-45, 1e38]
    s = st.one_of(
        st.sampled_from(vals),
        st.integers(-1000, 1000).map(float),
        st.integers(-1000, 1000).map(lambda k: k / 8.0),
        st.floats(-1e6, 1e6, allow_nan=False, width=32 if ty == "f32" else 64),
    )
    if ty == "f32":
        s = s.map(_to_f32)
    return s


# ---------------------------------------------------------------------------
# CFG skeleton helpers


def dominators(nblocks, succs):
    """Simple iterative dominator sets.  succs: list of successor index lists."""
    preds = [[] for _ in range(nblocks)]
    for i, ss in enumerate(succs):
        for s in ss:
            if i not in preds[s]:
                preds[s].append(i)
    full = set(range(nblocks))
    dom = [set(full) for _ in range(nblocks)]
    dom[0] = {0}
    changed = True
    while changed:
        changed = False
        for b in range(1, nblocks):
            ps = [dom[p] for p in preds[b]]
            new = set.intersection(*ps) if ps else set()
            new = new | {b}
            if new != dom[b]:
                dom[b] = new
                changed = True
    return dom, preds


class _FuncGen:
    """Generates one function.  `draw` is the Hypothesis draw function."""

    def __init__(self, draw, prof, mod, index):
        self.draw = draw
        self.prof = prof
        self.mod = mod  # module-level generator state
        self.index = index
        self.name = "f%d" % index
        self.counter = 0
        self.types = list(prof.int_types) + list(prof.float_types)
        self.prov = {}  # ptr value name -> ("obj", object name, offset, size, writable) | ("func", fname)
        self.objsize = {}

    def fresh(self, prefix="v"):
        self.counter += 1
        return "%s%d_%d" % (prefix, self.index, self.counter)

    def pick(self, seq):
        return seq[self.draw(st.integers(0, len(seq) - 1))]

    def chance(self, pct):
        return self.draw(st.integers(0, 99)) < pct

    # -- operand selection ---------------------------------------------------
    def value_of(self, ty, pool, out, allow_new=True):
        """Name of a value of type ty; may append a const to `out`."""
        cands = pool.get(ty, [])
        if cands and (not allow_new or self.chance(75)):
            return self.pick(cands)
        return self.new_const(ty, pool, out)

    def new_const(self, ty, pool, out, value=None):
        n = self.fresh("c")
        if ty == "ptr":
            v = self.pick([0, 1, 4, 8]) if value is None else value
        elif is_float(ty):
            v = fhex(self.draw(float_consts(ty, self.prof.nonfinite)) if value is None else value)
        else:
            v = self.draw(int_consts(ty)) if value is None else value
        out.append(["const", n, ty, v])
        pool.setdefault(ty, []).append(n)
        return n

    # -- the function --------------------------------------------------------
    def generate(self):
        draw, prof = self.draw, self.prof
        nparams = draw(st.integers(0, prof.max_params))
        params = []
        bufs = {}
        ptypes = self.types + ["ptr"]
        for i in range(nparams):
            ty = self.pick(ptypes)
            pn = "p%d_%d" % (self.index, i)
            params.append([pn, ty])
            if ty == "ptr":
                bufs[pn] = 16
                self.prov[pn] = ("obj", "buf:" + pn, 0, 16, True)
        ret = self.pick(self.types + [None]) if self.chance(85) else None
        tailrec = prof.tailrec and ret is not None and self.chance(12)
        if tailrec:
            if "i32" not in self.types:
                tailrec = False
            else:
                params.insert(0, ["p%d_n" % self.index, "i32"])
        self.ret = ret
        self.params = params
        nblocks = draw(st.integers(1, prof.max_blocks))
        last = nblocks - 1
        # spanning tree with <= 2 children
        children = [[] for _ in range(nblocks)]
        for b in range(1, nblocks):
            cands = [p for p in range(b) if len(children[p]) < 2]
            children[b - 1 if self.chance(50) and len(children[b - 1]) < 2 else self.pick(cands)].append(b)
        # successor lists
        succs = []
        kinds = []
        for b in range(nblocks):
            ch = list(children[b])
            if b == last and not ch:
                succs.append([])
                kinds.append("ret")
                continue
            if len(ch) == 2:
                succs.append(ch)
                kinds.append("cjmp")
            elif len(ch) == 1:
                if self.chance(55):
                    other = draw(st.integers(0 if b > 0 else 1, last)) if nblocks > 1 else ch[0]
                    if other == 0:
                        other = ch[0]  # the entry block must not have predecessors
                    succs.append([ch[0], other])
                    kinds.append("cjmp")
                else:
                    succs.append(ch)
                    kinds.append("jmp")
            else:
                r = draw(st.integers(0, 99))
                if r < 45 or nblocks == 1:
                    succs.append([])
                    kinds.append("ret")
                elif r < 75:
                    t = draw(st.integers(1, last))
                    succs.append([t])
                    kinds.append("jmp")
                else:
                    t1 = draw(st.integers(1, last))
                    t2 = draw(st.integers(1, last))
                    succs.append([t1, t2])
                    kinds.append("cjmp")
        if prof.distinct_cjmp_targets:
            # no 'cjmp a ? B : B' (consumers that reject a conditional jump whose arms coincide)
            for b in range(nblocks):
                if kinds[b] == "cjmp" and succs[b][0] == succs[b][1]:
                    succs[b] = [succs[b][0]]
                    kinds[b] = "jmp"
        # make sure some return is reachable on the forward path: the last block returns
        if kinds[last] != "ret":
            # last has no children by construction (children have larger index)
            succs[last] = []
            kinds[last] = "ret"
        # back edges are usually guarded by the global fuel counter; decided here so that the
        # successor sets are final before dominators and predecessors are computed
        for b in range(nblocks):
            back = [t for t in succs[b] if t <= b]
            if back and not (prof.unguarded and self.chance(6)):
                fwd = [t for t in succs[b] if t > b]
                alt = fwd[0] if fwd else last
                if alt > b:
                    succs[b] = [back[0], alt]
                    kinds[b] = "guard"
        dom, preds = dominators(nblocks, succs)
        self.nblocks, self.succs, self.kinds, self.dom, self.preds = nblocks, succs, kinds, dom, preds
        bname = ["%s_b%d" % (self.name, b) for b in range(nblocks)]
        self.bname = bname
        # phis decided up front
        phis = [[] for _ in range(nblocks)]
        for b in range(1, nblocks):
            if len(preds[b]) >= 1 and (len(preds[b]) >= 2 or self.chance(10)):
                for _ in range(draw(st.integers(0, 2)) if len(preds[b]) >= 2 else 1):
                    phis[b].append((self.fresh("phi"), self.pick(self.types if self.chance(90) else ["ptr"])))
        # defs per block (type -> names), filled in index order (dominators have smaller index)
        defs = [dict() for _ in range(nblocks)]
        body = [[] for _ in range(nblocks)]
        guard_fuel = None
        for b in range(nblocks):
            pool = {}
            for pn, ty in params:
                pool.setdefault(ty, []).append(pn)
            for g in self.mod.globals:
                pool.setdefault("ptr", []).append(g["name"])
            for d in sorted(dom[b] - {b}):
                for ty, names in defs[d].items():
                    pool.setdefault(ty, []).extend(names)
            mine = {}
            out = body[b]

            def define(n, ty, mine=mine, pool=pool):
                mine.setdefault(ty, []).append(n)
                pool.setdefault(ty, []).append(n)

            for pn, pty in phis[b]:
                define(pn, pty)
            if b == 0:
                self.entry_setup(pool, out, define)
            if prof.observe:
                for pn, pty in phis[b]:
                    if self.chance(60):
                        self.observe(pn, pty, pool, out)
            if prof.phi_liveout:
                # b is entered over an edge P->b whose source also branches to a dominating phi block H:
                # the phis of H are live on that edge (loop exit, 'lost copy' shape) -- make them matter
                for p in preds[b]:
                    for h in succs[p]:
                        if h != b and h in dom[b] and phis[h]:
                            for pn, pty in phis[h]:
                                if self.chance(70):
                                    self.observe(pn, pty, pool, out)
            nins = 0 if (b > 0 and self.chance(22)) else draw(st.integers(0, prof.max_ins))
            if prof.long_block_pct and self.chance(prof.long_block_pct):
                # a block longer than the code generator's splitting threshold (200 instructions)
                nins = draw(st.integers(90, 130))
            for _ in range(nins):
                self.gen_instruction(pool, out, define)
            if prof.observe and prof.observe_pct:
                # fold (a percentage of) ALL values defined in this block into the accumulator: without it most
                # generated values are dead and a wrong result of a single instruction is rarely observable
                for oty, names in list(mine.items()):
                    for nm in list(names):
                        if self.chance(prof.observe_pct):
                            self.observe(nm, oty, pool, out)
            if prof.observe and nins and self.chance(45):
                oty = self.pick(self.types)
                if mine.get(oty):
                    self.observe(self.pick(mine[oty]), oty, pool, out)
            # consts created through value_of/new_const went to pool only; register them as defs
            self.gen_terminator(b, pool, out, define)
            for ins in out:
                if ins[0] in ("const",) and ins[1] not in mine.get(ins[2], []):
                    mine.setdefault(ins[2], []).append(ins[1])
            defs[b] = mine
        # phi inputs
        for b in range(nblocks):
            if not phis[b]:
                continue
            pins = []
            for pn, pty in phis[b]:
                inputs = {}
                for p in preds[b]:
                    pool = {}
                    for qn, ty in params:
                        pool.setdefault(ty, []).append(qn)
                    if pty == "ptr":
                        for g in self.mod.globals:
                            pool.setdefault("ptr", []).append(g["name"])
                    for d in sorted(dom[p]):
                        for ty, names in defs[d].items():
                            pool.setdefault(ty, []).extend(names)
                    cands = [c for c in pool.get(pty, []) if c != pn or p != b]
                    if prof.undef and self.chance(5):
                        un = self.fresh("u")
                        body[p].insert(len(body[p]) - 1, ["undef", un, pty])
                        defs[p].setdefault(pty, []).append(un)
                        inputs[bname[p]] = un
                    elif cands and (self.chance(80) or len(body[p]) == 1):
                        inputs[bname[p]] = self.pick(cands)
                    else:
                        tmp = []
                        cn = self.new_const(pty, {}, tmp)
                        body[p].insert(len(body[p]) - 1, tmp[0])
                        defs[p].setdefault(pty, []).append(cn)
                        inputs[bname[p]] = cn
                pins.append(["phi", pn, pty, inputs])
            body[b] = pins + body[b]
        # diamond gadget: P: jmp C  ==>  P: cjmp ? E1 : E2;  E1: jmp C;  E2: jmp C  (E1, E2 empty) with the
        # phis of C receiving different values over the two edges -- the shape mem2reg leaves for 'c ? a : b'
        extra = []
        for b in range(nblocks):
            if kinds[b] != "jmp" or not body[b] or body[b][-1][0] != "jmp":
                continue
            c = succs[b][0]
            if c == b or not self.chance(40 if phis[c] else 8):
                continue
            pool = {}
            for qn, ty in params:
                pool.setdefault(ty, []).append(qn)
            for d in sorted(dom[b]):
                for ty, names in defs[d].items():
                    pool.setdefault(ty, []).extend(names)
            e1, e2 = "%s_d%da" % (self.name, b), "%s_d%db" % (self.name, b)
            tmp = []
            cty = self.pick([t for t in self.types if prof.allowed("cjmp", t)] or self.types)
            x = self.value_of(cty, pool, tmp)
            y = self.value_of(cty, pool, tmp)
            for ins in body[c]:
                if ins[0] != "phi":
                    break
                old = ins[3].pop(bname[b])
                cands = [v for v in pool.get(ins[2], []) if v != old]
                if cands:
                    other = self.pick(cands)
                else:
                    other = self.new_const(ins[2], pool, tmp)
                ins[3][e1] = old
                ins[3][e2] = other
            body[b] = body[b][:-1] + tmp + [["cjmp", x, self.pick(CONDS), y, e1, e2]]
            extra.append({"name": e1, "ins": [["jmp", bname[c]]]})
            extra.append({"name": e2, "ins": [["jmp", bname[c]]]})
        blocks = [{"name": bname[b], "ins": body[b]} for b in range(nblocks)] + extra
        fn = {"name": self.name, "params": params, "ret": ret, "bufs": bufs, "tailrec": bool(tailrec), "blocks": blocks}
        if tailrec:
            self.wrap_tailrec(fn)
        if prof.spin_cycle_pct and "i32" in self.types and self.chance(prof.spin_cycle_pct):
            self.add_spin_cycle(fn)
        if prof.loop_local_pct and "i32" in self.types and self.chance(prof.loop_local_pct):
            self.add_loop_local(fn)
        order = list(range(len(fn["blocks"])))
        if prof.permute_blocks and len(order) > 2 and self.chance(50):
            if self.chance(30):
                rest = list(reversed(order[1:]))  # every value of a dominating non-entry block is referenced before its definition
            else:
                rest = draw(st.permutations(order[1:]))
            order = [0] + list(rest)
        fn["layout"] = order
        if not prof.mixed_zero_signs:
            unify_zero_signs(fn)
        return fn

    def entry_setup(self, pool, out, define):
        draw, prof = self.draw, self.prof
        for _ in range(draw(st.integers(0, 3))):
            self.gen_alloca(pool, out, define)

    def gen_alloca(self, pool, out, define):
        """alloc + address (+ usually initialising stores); used for the entry block and, with Profile.late_allocs,
        anywhere (allocas in conditionally executed blocks and in loops, as front-ends emit them at declarations)"""
        prof = self.prof
        if True:
            size = self.pick([1, 2, 4, 4, 8, 8, 12, 16, 24])
            aligns = [a for a in (1, 2, 4, 8) if a <= max(1, size) and size % a == 0]
            if prof.word_aligned_allocas and size >= 4:
                # consumers whose subject mishandles 4 byte accesses to frame slots that are not 4-aligned
                aligns = [a for a in aligns if a >= 4]
            align = self.pick(aligns)
            an = self.fresh("a")
            out.append(["alloc", an, size, align])
            pn = self.fresh("ap")
            out.append(["addr", pn, an])
            self.prov[pn] = ("obj", an, 0, size, True)
            define(pn, "ptr")
            if not (prof.uninit_allocas and self.chance(15)):
                off = 0
                ints = [t for t in self.types if not is_float(t)]
                while off < size:
                    fits = [t for t in ints if off % (BITS[t] // 8) == 0 and off + BITS[t] // 8 <= size and BITS[t] // 8 <= align]
                    if not fits:
                        fits = [t for t in ints if off + BITS[t] // 8 <= size and BITS[t] == 8]
                    if not fits:
                        break
                    ty = max(fits, key=lambda t: BITS[t]) if self.chance(70) else self.pick(fits)
                    v = self.value_of(ty, pool, out)
                    p = pn
                    if off:
                        cn = self.new_const("ptr", pool, out, off)
                        p = self.fresh("q")
                        out.append(["binop", p, "ptr", pn, "+", cn])
                        self.prov[p] = ("obj", an, off, size, True)
                    out.append(["store", v, p, False])
                    off += BITS[ty] // 8

    def gen_mem_idiom(self, pool, out, define):
        """store T v,[p]; <interfering access>; x = load T [p]; observe x   (same pointer value throughout)"""
        ints = [t for t in self.types]
        ty = self.pick(ints)
        s = size_of(ty, self.prof.ptr_bits)
        p = self.pointer_for(pool, out, s, True)
        if p is None:
            return
        v = self.value_of(ty, pool, out)
        out.append(["store", v, p, False])
        k = self.draw(st.integers(0, 8))
        if k >= 6:
            # a load that reads the stored location without being forwardable: through an aliasing pointer value,
            # volatile, or with another type; then the location is overwritten
            y = self.fresh()
            if k == 6:
                c1 = self.new_const("ptr", pool, out, self.pick([1, 2, 4, 8]))
                t = self.fresh("q")
                out.append(["binop", t, "ptr", p, "+", c1])
                q2 = self.fresh("q")
                out.append(["binop", q2, "ptr", t, "-", c1])
                self.prov[q2] = self.prov.get(p) or self.mod.prov.get(p)
                out.append(["load", y, ty, q2, False])
                yty = ty
            elif k == 7 and self.prof.volatile:
                out.append(["load", y, ty, p, True])
                yty = ty
            else:
                narrower = [t for t in ints if size_of(t, 64) <= s and t != ty and self.prof.allowed("mem", t)]
                yty = self.pick(narrower) if narrower else ty
                out.append(["load", y, yty, p, False])
            define(y, yty)
            out.append(["store", self.value_of(ty, pool, out), p, False])
            if self.prof.observe:
                self.observe(y, yty, pool, out)
        elif k == 0:
            ty2 = self.pick([t for t in ints if size_of(t, 64) <= s])
            out.append(["store", self.value_of(ty2, pool, out), p, False])
        elif k == 1 and self.prof.copyblob:
            src = self.pointer_for(pool, out, s, False, align=1)
            if src is not None and (self.prov.get(src) or self.mod.prov.get(src))[1] != (self.prov.get(p) or self.mod.prov.get(p))[1]:
                out.append(["copy", p, src, s])
        elif k == 2:
            out.append(["store", self.value_of(ty, pool, out), p, self.prof.volatile and self.chance(30)])
        elif k == 3:
            self.gen_call(pool, out, define)
        elif k == 4:
            y = self.fresh()
            out.append(["load", y, ty, p, False])
            define(y, ty)
            out.append(["store", self.value_of(ty, pool, out), p, False])
        x = self.fresh()
        out.append(["load", x, ty, p, False])
        define(x, ty)
        if self.prof.observe:
            self.observe(x, ty, pool, out)

    def gen_chain_idiom(self, pool, out, define):
        """u = (y op c1) op2 c2 with constant c1, c2; observe u"""
        ints = [t for t in self.types if not is_float(t)]
        ty = self.pick(self.types if self.chance(30) else (ints or self.types))
        ops = ["+", "-"] if not is_float(ty) and self.chance(80) else (FLOAT_OPS if is_float(ty) else ["+", "-", "*", "&", "|", "^"])
        ops = [o for o in ops if self.prof.allowed("binop", ty, o)]
        if not ops:
            return
        y = self.value_of(ty, pool, out, allow_new=False) if pool.get(ty) else self.value_of(ty, pool, out)
        c1 = self.new_const(ty, pool, out)
        t = self.fresh()
        out.append(["binop", t, ty, y, self.pick(ops), c1])
        c2 = self.new_const(ty, pool, out)
        u = self.fresh()
        out.append(["binop", u, ty, t, self.pick(ops), c2])
        define(t, ty)
        define(u, ty)
        if self.prof.observe:
            self.observe(u, ty, pool, out)

    def gen_constexpr_idiom(self, pool, out, define):
        """v = ((c0 op c1) op c2) ... over fresh constants only (what a constant folder evaluates at compile time), with an
        occasional cast in between; the generator tracks the concrete value so that divisors, MIN / -1 and shift counts stay
        defined.  Wide types and operands beyond 2**53 (not exactly representable as a double) are preferred."""
        from . import irsem

        prof = self.prof
        ints = [t for t in self.types if not is_float(t)]
        if not ints:
            return
        wide = [t for t in ints if BITS[t] == 64]
        ty = self.pick(wide) if wide and self.chance(50) else self.pick(ints)

        def big_const(t):
            lo, hi = int_range(t)
            if BITS[t] == 64 and self.chance(50):
                v = self.draw(st.one_of(st.integers(2**53, hi), st.sampled_from([hi, hi - 1, hi - 2, 2**53 + 1, 2**62 + 3, 10**18 + 7])))
                return -v if lo < 0 and self.chance(30) else v
            return self.draw(int_consts(t))

        val = big_const(ty)
        cur = self.new_const(ty, pool, out, val)
        for _ in range(self.draw(st.integers(1, 3))):
            if self.chance(15):
                dty = self.pick(ints)
                if dty != ty and prof.allowed("cast", ty, dty):
                    n = self.fresh()
                    out.append(["cast", n, dty, cur])
                    define(n, dty)
                    val = irsem.norm_int(val, BITS[dty], is_signed(dty))
                    cur, ty = n, dty
                    continue
            ops = [o for o in INT_OPS + (ROT_OPS if prof.rotates else []) if prof.allowed("binop", ty, o)]
            if not ops:
                return
            op = self.pick(["/", "%"]) if self.chance(40) and "/" in ops and "%" in ops else self.pick(ops)
            lo, hi = int_range(ty)
            bits, sg = BITS[ty], is_signed(ty)
            if op in ("<<", ">>", "rol", "ror"):
                c = self.pick([0, 1, 2, 3, bits // 2, bits - 1, bits - 2])
            elif op in ("/", "%"):
                c = self.pick([x for x in (1, 2, 3, 5, 7, 10, 16, 1000, hi, hi - 1, -1, -2, -3, -7, -10, lo) if lo <= x <= hi and x != 0]) if self.chance(70) else big_const(ty)
                if c == 0 or (sg and val == lo and c == -1):
                    c = 3
            else:
                c = big_const(ty)
            cn = self.new_const(ty, pool, out, c)
            swap = op not in ("<<", ">>", "rol", "ror") and self.chance(25)
            a, b, av, bv = (cn, cur, c, val) if swap else (cur, cn, val, c)
            try:
                res = irsem.int_binop(op, av, bv, bits, sg)
            except irsem.Undef:
                a, b, av, bv = cur, cn, val, c
                try:
                    res = irsem.int_binop(op, av, bv, bits, sg)
                except irsem.Undef:
                    return
            n = self.fresh()
            out.append(["binop", n, ty, a, op, b])
            define(n, ty)
            cur, val = n, res
        if prof.observe:
            self.observe(cur, ty, pool, out)

    def gen_instruction(self, pool, out, define):
        draw, prof = self.draw, self.prof
        if prof.late_allocs and self.chance(5):
            return self.gen_alloca(pool, out, define)
        if prof.indirect_boost and self.mod.functions and self.chance(prof.indirect_boost):
            return self.gen_fptr_idiom(pool, out, define)
        if prof.constexpr_pct and self.chance(prof.constexpr_pct):
            return self.gen_constexpr_idiom(pool, out, define)
        r = draw(st.integers(0, 109))
        if r >= 105:
            return self.gen_mem_idiom(pool, out, define)
        if r >= 100:
            return self.gen_chain_idiom(pool, out, define)
        if r < 38:  # binop
            ty = self.pick(self.types)
            if is_float(ty):
                fops = [o for o in FLOAT_OPS if prof.allowed("binop", ty, o)]
                if not fops:
                    return
                op = self.pick(fops)
                a = self.value_of(ty, pool, out)
                b = self.value_of(ty, pool, out)
            else:
                ops = [o for o in INT_OPS + (ROT_OPS if prof.rotates else []) if prof.allowed("binop", ty, o)]
                if not ops:
                    return
                op = self.pick(ops)
                a = self.value_of(ty, pool, out)
                if op in ("/", "%"):
                    b = self.safe_divisor(ty, pool, out)
                elif op in ("<<", ">>", "rol", "ror"):
                    b = self.safe_count(ty, pool, out)
                else:
                    b = self.value_of(ty, pool, out)
            n = self.fresh()
            out.append(["binop", n, ty, a, op, b])
            define(n, ty)
        elif r < 44 and prof.unops:
            ty = self.pick(self.types)
            op = "-" if is_float(ty) else self.pick(["-", "~"])
            if not prof.allowed("unop", ty, op):
                return
            a = self.value_of(ty, pool, out)
            n = self.fresh()
            out.append(["unop", n, ty, op, a])
            define(n, ty)
        elif r < 58:  # cast
            dty = self.pick(self.types)
            sty = self.pick(self.types)
            if (is_float(sty) != is_float(dty)) and not prof.float_int_casts:
                sty = dty
            if is_float(sty) and not is_float(dty) and self.chance(85):
                wide = [t for t in self.types if not is_float(t) and BITS[t] >= 32 and is_signed(t)]
                if wide:
                    dty = self.pick(wide)
            if not prof.allowed("cast", sty, dty):
                return
            src = self.value_of(sty, pool, out)
            n = self.fresh()
            out.append(["cast", n, dty, src])
            define(n, dty)
        elif r < 70:  # load
            ty = self.pick(self.types + ["ptr"] if self.chance(8) else self.types)
            s = size_of(ty, prof.ptr_bits)
            p = self.pointer_for(pool, out, s, False)
            if p is None:
                return
            n = self.fresh()
            out.append(["load", n, ty, p, prof.volatile and self.chance(10)])
            if ty == "ptr":
                pass  # unknown provenance: never dereferenced
            define(n, ty)
        elif r < 82:  # store
            ty = self.pick(self.types)
            s = size_of(ty, prof.ptr_bits)
            p = self.pointer_for(pool, out, s, True)
            if p is None:
                return
            v = self.value_of(ty, pool, out)
            out.append(["store", v, p, prof.volatile and self.chance(10)])
        elif r < 90:  # call
            self.gen_call(pool, out, define)
        elif r < 93 and prof.copyblob:
            n = self.pick([1, 2, 4, 8])
            src = self.pointer_for(pool, out, n, False, align=1)
            dst = self.pointer_for(pool, out, n, True, align=1)
            if src is None or dst is None:
                return
            ps, pd = self.prov[src], self.prov[dst]
            if ps[1] == pd[1]:
                return  # same object: overlap not modelled
            out.append(["copy", dst, src, n])
        elif r < 95 and prof.literals:
            data = bytes(draw(st.lists(st.integers(0, 255), min_size=1, max_size=12)))
            ln = self.fresh("lit")
            out.append(["literal", ln, data.hex()])
            pn = self.fresh("lp")
            out.append(["addr", pn, ln])
            self.prov[pn] = ("obj", ln, 0, len(data), False)
            define(pn, "ptr")
        elif r < 97 and prof.ptr_int_casts:
            ity = "u64" if prof.ptr_bits == 64 else "u32"
            if ity in self.types and pool.get("ptr"):
                n = self.fresh()
                out.append(["cast", n, ity, self.pick(pool["ptr"])])
                define(n, ity)
        elif r < 98 and prof.indirect_calls and self.mod.functions:
            f = self.pick(self.mod.functions)
            # take the address of a function: in ppci IR the subroutine itself is the ptr value;
            # route it through memory to obtain a plain ptr value
            p = self.pointer_for(pool, out, prof.ptr_bits // 8, True, align=prof.ptr_bits // 8)
            if p is None:
                return
            out.append(["store", f["name"], p, False])
            n = self.fresh("fp")
            out.append(["load", n, "ptr", p, False])
            self.prov[n] = ("func", f["name"])
            pool.setdefault("fptr", []).append(n)
        else:
            ty = self.pick(self.types)
            self.new_const(ty, pool, out)

    def observe(self, v, ty, pool, out):
        """Fold value v into the global observation accumulator (makes v matter to the outcome)."""
        ints = [t for t in self.types if not is_float(t)]
        if not ints or ty == "ptr":
            return
        acc_ty = "u64" if "u64" in ints else ("u32" if "u32" in ints else ints[0])
        if self.prof.obs_type:
            acc_ty = self.prof.obs_type  # accumulator type chosen by the consumer (must be one of its integer types)
        g = self.mod.obs_global(acc_ty)
        if is_float(ty):
            # keep the bits: store the float into the float slot of the accumulator object
            q = self.fresh("ob")
            cn = self.new_const("ptr", pool, out, 8)
            out.append(["binop", q, "ptr", g, "+", cn])
            out.append(["store", v, q, False])
            return
        x = v
        if ty != acc_ty:
            if not self.prof.allowed("cast", ty, acc_ty):
                # consumers that chose the accumulator type (obs_type) get a two-step widening through i32
                if not (self.prof.obs_type and ty != "i32" and "i32" in ints and self.prof.allowed("cast", ty, "i32") and self.prof.allowed("cast", "i32", acc_ty)):
                    return
                x = self.fresh("ob")
                out.append(["cast", x, "i32", v])
                v = x
            x = self.fresh("ob")
            out.append(["cast", x, acc_ty, v])
        old = self.fresh("ob")
        out.append(["load", old, acc_ty, g, False])
        k = self.new_const(acc_ty, pool, out, 31)
        m = self.fresh("ob")
        out.append(["binop", m, acc_ty, old, "*", k])
        n = self.fresh("ob")
        out.append(["binop", n, acc_ty, m, "+", x])
        out.append(["store", n, g, False])

    def safe_divisor(self, ty, pool, out):
        if self.prof.unguarded and self.chance(10):
            return self.value_of(ty, pool, out)
        if self.chance(60) or not pool.get(ty):
            lo, hi = int_range(ty)
            cands = [1, 2, 3, 5, 7, 10, hi, 16, 100 & hi or 1]
            if is_signed(ty):
                cands += [-2, -3, -7, lo]
            return self.new_const(ty, pool, out, self.pick([c for c in cands if lo <= c <= hi and c != 0]))
        x = self.pick(pool[ty])
        one = self.new_const(ty, pool, out, 1)
        n = self.fresh()
        out.append(["binop", n, ty, x, "|", one])
        pool.setdefault(ty, []).append(n)
        return n

    def safe_count(self, ty, pool, out):
        bits = BITS[ty]
        if self.prof.unguarded and self.chance(8):
            return self.value_of(ty, pool, out)
        if self.chance(60) or not pool.get(ty):
            return self.new_const(ty, pool, out, self.pick([0, 1, 2, 3, bits // 2, bits - 1, bits - 2]))
        x = self.pick(pool[ty])
        m = self.new_const(ty, pool, out, bits - 1)
        n = self.fresh()
        out.append(["binop", n, ty, x, "&", m])
        pool.setdefault(ty, []).append(n)
        return n

    def pointer_for(self, pool, out, size, writable, align=None):
        """A ptr value with statically known provenance giving `size` accessible bytes."""
        align = align or size
        cands = []
        for n in pool.get("ptr", []):
            p = self.prov.get(n) or self.mod.prov.get(n)
            if p and p[0] == "obj" and (p[4] or not writable):
                cands.append((n, p))
        if not cands:
            return None
        n, p = self.pick(cands)
        _, obj, off, osize, wr = p
        # choose an aligned offset inside the object
        offs = [o for o in range(0, osize - size + 1) if o % align == 0]
        if not offs:
            return None
        edge = [x for x in offs if 120 <= x <= 136]
        o = self.pick(edge) if edge and self.chance(60) else self.pick(offs)
        if o == off:
            self.prov.setdefault(n, p)
            return n
        if o < off and self.prof.ptr_bits:
            # negative delta: written as ptr constant modulo 2^ptr_bits via subtraction
            cn = self.new_const("ptr", pool, out, off - o)
            q = self.fresh("q")
            out.append(["binop", q, "ptr", n, "-", cn])
        else:
            cn = self.new_const("ptr", pool, out, o - off)
            q = self.fresh("q")
            out.append(["binop", q, "ptr", n, "+", cn])
        self.prov[q] = ("obj", obj, o, osize, wr)
        pool.setdefault("ptr", []).append(q)
        return q

    def gen_fptr_idiom(self, pool, out, define):
        """store &f,[p]; fp = load ptr [p]; call fp(...)   (Profile.indirect_boost: percentage of instructions)"""
        prof = self.prof
        f = self.pick(self.mod.functions)
        p = self.pointer_for(pool, out, prof.ptr_bits // 8, True, align=prof.ptr_bits // 8)
        if p is None:
            return
        out.append(["store", f["name"], p, False])
        n = self.fresh("fp")
        out.append(["load", n, "ptr", p, False])
        self.prov[n] = ("func", f["name"])
        pool.setdefault("fptr", []).append(n)
        self.gen_call(pool, out, define, force=(f, n))

    def gen_call(self, pool, out, define, force=None):
        prof = self.prof
        targets = [("fn", f) for f in self.mod.functions] + ([("ext", e) for e in self.mod.externals] if prof.externals else [])
        fptrs = [n for n in pool.get("fptr", [])]
        if not targets:
            return
        if force is not None:
            kind, f = "fn", force[0]
            callee = force[1]
        else:
            kind, f = self.pick(targets)
            callee = f["name"]
        if force is None and kind == "fn" and fptrs and self.chance(50):
            cands = [n for n in fptrs if self.prov[n][1] == f["name"]]
            if cands:
                callee = self.pick(cands)
        ptys = [p[1] for p in f["params"]] if kind == "fn" else f["args"]
        args = []
        for i, ty in enumerate(ptys):
            if ty == "ptr":
                p = self.pointer_for(pool, out, 16, True, align=8)
                if p is None:
                    return
                args.append(p)
            elif kind == "fn" and f.get("tailrec") and i == 0:
                x = self.value_of("i32", pool, out)
                m = self.new_const("i32", pool, out, 3)
                n = self.fresh()
                out.append(["binop", n, "i32", x, "&", m])
                args.append(n)
            else:
                args.append(self.value_of(ty, pool, out))
        if prof.dup_args_pct and self.chance(prof.dup_args_pct):
            # the same value in two argument positions (every use of a value has to be found when it is replaced or,
            # in the readers, patched after a forward reference)
            same = [(i, j) for i in range(len(ptys)) for j in range(i + 1, len(ptys)) if ptys[i] == ptys[j] and ptys[i] != "ptr"
                    and not (kind == "fn" and f.get("tailrec") and i == 0)]
            if same:
                i, j = self.pick(same)
                args[j] = args[i]
        rty = f["ret"]
        if rty is None:
            out.append(["call", None, None, callee, args])
        else:
            n = self.fresh("r")
            out.append(["call", n, rty, callee, args])
            define(n, rty)

    def gen_terminator(self, b, pool, out, define):
        kind, succs = self.kinds[b], self.succs[b]
        bn = self.bname
        if kind == "ret":
            if self.ret is None:
                out.append(["exit"])
            else:
                out.append(["ret", self.value_of(self.ret, pool, out)])
            return
        if kind == "guard":
            # the back edge is taken only while the global fuel counter is positive
            fuel = self.mod.fuel_global()
            ld = self.fresh("fu")
            out.append(["load", ld, "i32", fuel, False])
            one = self.new_const("i32", pool, out, 1)
            dec = self.fresh("fu")
            out.append(["binop", dec, "i32", ld, "-", one])
            out.append(["store", dec, fuel, False])
            zero = self.new_const("i32", pool, out, 0)
            out.append(["cjmp", dec, ">", zero, bn[succs[0]], bn[succs[1]]])
            return
        if kind == "jmp":
            out.append(["jmp", bn[succs[0]]])
        else:
            ty = self.pick([t for t in self.types if self.prof.allowed("cjmp", t)] or self.types)
            a = self.value_of(ty, pool, out)
            c = self.value_of(ty, pool, out)
            yes, no = bn[succs[0]], bn[succs[1]]
            if self.prof.swap_cjmp_arms and self.chance(self.prof.swap_cjmp_arms):
                # without this the 'yes' arm is (almost) always the spanning-tree child and only the 'no' arm can be
                # a direct jump to the join block
                yes, no = no, yes
            out.append(["cjmp", a, self.pick(CONDS), c, yes, no])

    def add_spin_cycle(self, fn):
        """P: jmp T  ==>  P: fu = load fuel; cjmp fu < -1000000 ? S0 : T;   S0 -> S1 [-> S2] -> S0, all jump-only blocks
        ('for (;;) ;' as the C front end emits it).  The cycle is reachable for every analysis but never entered at run
        time (the fuel counter is never that negative), so executions stay comparable."""
        cands = [b for b in fn["blocks"] if b["ins"] and b["ins"][-1][0] == "jmp"]
        if not cands:
            return
        blk = self.pick(cands)
        target = blk["ins"][-1][1]
        k = self.pick([1, 2, 2, 2, 3, 3, 4])
        names = ["%s_s%d" % (self.name, i) for i in range(k)]
        fuel = self.mod.fuel_global()
        fu, neg = self.fresh("fu"), self.fresh("c")
        blk["ins"] = blk["ins"][:-1] + [["load", fu, "i32", fuel, False], ["const", neg, "i32", -1000000], ["cjmp", fu, "<", neg, names[0], target]]
        for i in range(k):
            fn["blocks"].append({"name": names[i], "ins": [["jmp", names[(i + 1) % k]]]})

    def add_loop_local(self, fn):
        """P: jmp T  ==>  a counted loop between P and T whose HEADER allocates a promotable slot that is written on one arm
        and read after the join ('for (..) { int x; if (c) x = i; use(x); }').  Statically the slot is read on a path
        without a write (mem2reg needs a phi for it at the loop header, fed from outside the loop by its 'undefined'
        initial value); at run time the writing arm is always taken (the other is guarded by fuel < -1000000)."""
        cands = [b for b in fn["blocks"] if b["ins"] and b["ins"][-1][0] == "jmp"]
        if not cands:
            return
        blk = self.pick(cands)
        pname, target = blk["name"], blk["ins"][-1][1]
        if target == pname:
            return
        n = lambda s: "%s_l%s" % (self.name, s)  # noqa: E731
        if any(b["name"] == n("h") for b in fn["blocks"]):
            return
        f = self.fresh
        c3, i, i2, a, ap, fu, neg, x, one, zero = f("c"), f("li"), f("li"), f("a"), f("ap"), f("fu"), f("c"), f("lx"), f("c"), f("c")
        fuel = self.mod.fuel_global()
        trips = self.pick([1, 2, 3])
        blk["ins"] = blk["ins"][:-1] + [["const", c3, "i32", trips], ["jmp", n("h")]]
        head = {"name": n("h"), "ins": [["phi", i, "i32", {pname: c3, n("j"): i2}], ["alloc", a, 4, 4], ["addr", ap, a],
                                          ["load", fu, "i32", fuel, False], ["const", neg, "i32", -1000000],
                                          ["cjmp", fu, "<", neg, n("s"), n("t")]]}
        skip = {"name": n("s"), "ins": [["jmp", n("j")]]}
        then = {"name": n("t"), "ins": [["store", i, ap, False], ["jmp", n("j")]]}
        tmp = [["load", x, "i32", ap, False]]
        if self.prof.observe:
            self.observe(x, "i32", {}, tmp)
        join = {"name": n("j"), "ins": tmp + [["const", one, "i32", 1], ["binop", i2, "i32", i, "-", one], ["const", zero, "i32", 0],
                                                ["cjmp", i2, ">", zero, n("h"), target]]}
        for b in fn["blocks"]:
            if b["name"] == target:
                for ins in b["ins"]:
                    if ins[0] != "phi":
                        break
                    if pname in ins[3]:
                        ins[3][n("j")] = ins[3].pop(pname)
        fn["blocks"] += [head, skip, then, join]

    def wrap_tailrec(self, fn):
        """entry: n <= 0 ? base : body ... last block: r = call self(n-1, ...); return r"""
        name = fn["name"]
        nparam = fn["params"][0][0]
        ret = fn["ret"]
        blocks = fn["blocks"]
        old_entry = blocks[0]["name"]
        # new entry + base block
        e, bse = name + "_te", name + "_tb"
        zero = self.fresh("c")
        entry = {"name": e, "ins": [["const", zero, "i32", 0], ["cjmp", nparam, "<=", zero, bse, old_entry]]}
        tmp = []
        cn = self.new_const(ret, {}, tmp)
        base = {"name": bse, "ins": tmp + [["ret", cn]]}
        # allocas must stay in the (old) entry: fine, it is executed once per activation
        # rewrite every "ret" into a self call in the last block only
        last = blocks[-1]
        term = last["ins"][-1]
        if term[0] == "ret":
            one = self.fresh("c")
            dec = self.fresh("n")
            pre = [["const", one, "i32", 1], ["binop", dec, "i32", nparam, "-", one]]
            args = [dec]
            ok = True
            for pn, pty in fn["params"][1:]:
                if pty != "ptr" and self.chance(50):
                    # not forwarded: the parameter may then be completely unused
                    args.append(self.new_const(pty, {}, pre))
                else:
                    args.append(pn)
            r = self.fresh("r")
            last["ins"] = last["ins"][:-1] + pre + [["call", r, ret, name, args], ["ret", r]]
        # phis in old entry cannot exist (entry has no phis); but old entry now has a predecessor `e`
        fn["blocks"] = [entry] + blocks + [base]


class _ModGen:
    def __init__(self, draw, prof):
        self.draw = draw
        self.prof = prof
        self.globals = []
        self.externals = []
        self.functions = []
        self.prov = {}
        self._fuel = None

    def obs_global(self, acc_ty):
        if not getattr(self, "_obs", None):
            self._obs = "g_obs"
            self.globals.append({"name": "g_obs", "size": 16, "align": 8, "init": None})
        return self._obs

    def fuel_global(self):
        if self._fuel is None:
            self._fuel = "g_fuel"
            self.globals.append({"name": "g_fuel", "size": 4, "align": 4, "init": [struct.pack("<i" if True else ">i", 6).hex()], "fuel": True})
        return self._fuel

    def generate(self):
        draw, prof = self.draw, self.prof
        ng = draw(st.integers(0, 3))
        for i in range(ng):
            size = draw(st.sampled_from([1, 2, 4, 4, 8, 8, 16, 24]))
            align = draw(st.sampled_from([a for a in (1, 2, 4, 8) if size % a == 0]))
            init = None
            if draw(st.integers(0, 99)) < 60:
                init = [bytes(draw(st.lists(st.integers(0, 255), min_size=size, max_size=size))).hex()]
                if prof.split_init and draw(st.integers(0, 99)) < prof.split_init:
                    # the initial value in several chunks, possibly with a zero-length one (a C union initialiser whose
                    # first member fills the union is printed as '44332211', '')
                    cuts = sorted(set(draw(st.lists(st.integers(0, size), min_size=1, max_size=3))))
                    raw, parts, last = bytes.fromhex(init[0]), [], 0
                    for c in cuts + [size]:
                        parts.append(raw[last:c].hex())
                        last = c
                    init = parts
            name = "g%d" % i
            self.globals.append({"name": name, "size": size, "align": align, "init": init})
            self.prov[name] = ("obj", name, 0, size, True)
        if draw(st.integers(0, 99)) < 20:
            # an object large enough for displacements around the 8 bit edge (offset 120..136)
            self.globals.append({"name": "gbig", "size": 160, "align": 8, "init": None})
            self.prov["gbig"] = ("obj", "gbig", 0, 160, True)
        if prof.global_refs and self.globals and draw(st.integers(0, 99)) < 25:
            tgt = draw(st.sampled_from([g["name"] for g in self.globals]))
            ps = prof.ptr_bits // 8
            self.globals.append({"name": "gref", "size": ps, "align": ps, "init": [["ref", tgt]]})
            self.prov["gref"] = ("obj", "gref", 0, ps, True)
        if prof.externals:
            types = list(prof.int_types) + list(prof.float_types)
            cands = []
            if "i32" in types:
                cands.append({"name": "ext_i", "args": ["i32"], "ret": "i32"})
                cands.append({"name": "ext_v", "args": ["i32"], "ret": None})
            if "i64" in types and "i32" in types:
                cands.append({"name": "ext_l", "args": ["i32", "i64"], "ret": "i64"})
            if "u8" in types and "i16" in types:
                cands.append({"name": "ext_s", "args": ["u8", "i16"], "ret": "u8"})
            if prof.dup_args_pct and "i32" in types:
                cands.append({"name": "ext_d", "args": ["i32", "i32"], "ret": "i32"})
                if "i64" in types:
                    cands.append({"name": "ext_q", "args": ["i64", "i32", "i64"], "ret": None})
            for c in cands:
                if draw(st.integers(0, 99)) < 40:
                    self.externals.append(c)
        nf = draw(st.integers(1, prof.max_funcs))
        for i in range(nf):
            fg = _FuncGen(draw, prof, self, i)
            fn = fg.generate()
            self.functions.append(fn)
        g = [dict((k, v) for k, v in g.items() if k != "fuel") for g in self.globals]
        return {"ptr_bits": prof.ptr_bits, "globals": g, "externals": self.externals, "functions": self.functions}


def unify_zero_signs(fn):
    """Profile.mixed_zero_signs=False: within one block all float zero constants of a type get the sign of the first one
    (for consumers whose subject merges the constants 0.0 and -0.0 of a block)."""
    for b in fn["blocks"]:
        first = {}
        for ins in b["ins"]:
            if ins[0] == "const" and is_float(ins[2]) and unfhex(ins[3]) == 0.0:
                ins[3] = first.setdefault(ins[2], ins[3])


def modules(profile=FULL):
    @st.composite
    def _mod(draw):
        return _ModGen(draw, profile).generate()

    return _mod()


# ---------------------------------------------------------------------------
# argument vectors


def arg_strategy(fn, profile=FULL):
    """Strategy for one argument vector of function description fn (ptr params -> ["buf", k])."""
    parts = []
    nbuf = 0
    for i, (pn, ty) in enumerate(fn["params"]):
        if ty == "ptr":
            parts.append(st.just(["buf", nbuf]))
            nbuf += 1
        elif fn.get("tailrec") and i == 0:
            parts.append(st.integers(-1, 4))
        elif is_float(ty):
            fs = float_consts(ty, profile.nonfinite_args)
            if profile.nonfinite_args:
                # one argument in five is NaN / an infinity / -0.0: float compares and conversions on them are where
                # translations of conditions go wrong
                fs = st.one_of(fs, fs, fs, fs, st.sampled_from([float("nan"), float("inf"), float("-inf"), -0.0]))
            parts.append(fs.map(fhex))
        else:
            parts.append(int_consts(ty))
    return st.tuples(*parts).map(list)


def nbufs(fn):
    return sum(1 for _, ty in fn["params"] if ty == "ptr")


def decode_args(args):
    return [unfhex(a) if isinstance(a, str) and a.startswith("f:") else (tuple(a) if isinstance(a, list) else a) for a in args]


# ---------------------------------------------------------------------------
# description -> ppci.ir


def build(desc, name="gen"):
    """Build a ppci ir.Module from a description."""
    from ppci import ir

    tymap = {t.name: t for t in ir.value_types}
    tymap["ptr"] = ir.ptr

    def T(n):
        return tymap[n]

    m = ir.Module(name)
    symbols = {}
    for e in desc["externals"]:
        args = [T(a) for a in e["args"]]
        if e["ret"] is None:
            x = ir.ExternalProcedure(e["name"], args)
        else:
            x = ir.ExternalFunction(e["name"], args, T(e["ret"]))
        m.add_external(x)
        symbols[e["name"]] = x
    for g in desc["globals"]:
        value = None
        if g["init"] is not None:
            parts = []
            for p in g["init"]:
                if isinstance(p, str):
                    parts.append(bytes.fromhex(p))
                else:
                    parts.append((ir.ptr, p[1]))
            value = tuple(parts)
        v = ir.Variable(g["name"], ir.Binding.GLOBAL, g["size"], g["align"], value=value)
        m.add_variable(v)
        symbols[g["name"]] = v
    funcs = []
    for fd in desc["functions"]:
        if fd["ret"] is None:
            f = ir.Procedure(fd["name"], ir.Binding.GLOBAL)
        else:
            f = ir.Function(fd["name"], ir.Binding.GLOBAL, T(fd["ret"]))
        for pn, pty in fd["params"]:
            f.add_parameter(ir.Parameter(pn, T(pty)))
        m.add_function(f)
        symbols[fd["name"]] = f
        funcs.append((fd, f))
    for fd, f in funcs:
        env = dict(symbols)
        for p in f.arguments:
            env[p.name] = p
        blocks = {}
        blist = []
        for bd in fd["blocks"]:
            b = ir.Block(bd["name"])
            blocks[bd["name"]] = b
            blist.append(b)
        order = fd.get("layout") or list(range(len(blist)))
        f.entry = blist[order[0]]
        for i in order:
            f.add_block(blist[i])
        phis = []
        for bd, b in zip(fd["blocks"], blist):
            for ins in bd["ins"]:
                k = ins[0]
                if k == "const":
                    v = ins[3]
                    if isinstance(v, str):
                        v = unfhex(v)
                    x = ir.Const(v, ins[1], T(ins[2]))
                elif k == "binop":
                    x = ir.Binop(env[ins[3]], ins[4], env[ins[5]], ins[1], T(ins[2]))
                elif k == "unop":
                    x = ir.Unop(ins[3], env[ins[4]], ins[1], T(ins[2]))
                elif k == "cast":
                    x = ir.Cast(env[ins[3]], ins[1], T(ins[2]))
                elif k == "alloc":
                    x = ir.Alloc(ins[1], ins[2], ins[3])
                elif k == "addr":
                    x = ir.AddressOf(env[ins[2]], ins[1])
                elif k == "literal":
                    x = ir.LiteralData(bytes.fromhex(ins[2]), ins[1])
                elif k == "load":
                    x = ir.Load(env[ins[3]], ins[1], T(ins[2]), volatile=bool(ins[4]))
                elif k == "store":
                    x = ir.Store(env[ins[1]], env[ins[2]], volatile=bool(ins[3]))
                elif k == "copy":
                    x = ir.CopyBlob(env[ins[1]], env[ins[2]], ins[3])
                elif k == "call":
                    args = [env[a] for a in ins[4]]
                    if ins[1] is None:
                        x = ir.ProcedureCall(env[ins[3]], args)
                    else:
                        x = ir.FunctionCall(env[ins[3]], args, ins[1], T(ins[2]))
                elif k == "undef":
                    x = ir.Undefined(ins[1], T(ins[2]))
                elif k == "phi":
                    x = ir.Phi(ins[1], T(ins[2]))
                    phis.append((x, ins[3]))
                elif k == "jmp":
                    x = ir.Jump(blocks[ins[1]])
                elif k == "cjmp":
                    x = ir.CJump(env[ins[1]], ins[2], env[ins[3]], blocks[ins[4]], blocks[ins[5]])
                elif k == "ret":
                    x = ir.Return(env[ins[1]])
                elif k == "exit":
                    x = ir.Exit()
                else:
                    raise ValueError("unknown instruction kind %r" % (k,))
                b.add_instruction(x)
                if isinstance(x, ir.Value):
                    env[ins[1]] = x
        for phi, inputs in phis:
            for bn, vn in sorted(inputs.items()):
                phi.set_incoming(blocks[bn], env[vn])
    return m


def count_instructions(desc):
    return sum(len(b["ins"]) for f in desc["functions"] for b in f["blocks"])


def kinds_in(desc):
    ks = set()
    for f in desc["functions"]:
        for b in f["blocks"]:
            for ins in b["ins"]:
                ks.add(ins[0] if ins[0] != "binop" else "binop" + ins[4])
    return ks
