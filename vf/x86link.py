"""x86-64 gcc-link route: ppci object -> relocatable ELF -> `gcc -no-pie` with foreign sources -> run.

Small API (all paths are plain strings, nothing is cached, nothing is written outside `workdir`):

    obj = ppci_cc(c_source, march=None, **kw)     ppci.api.cc on a source string for x86_64 (raises what ppci raises)
    write_relocatable(obj, path)                  ppci object (from cc / ir_to_object / asm) -> ET_REL file for gcc/ld
    gcc_link(exe, inputs, cflags=())              gcc -no-pie <cflags> <inputs: .c .S .o> -o exe ; raises ToolError
    res = run_exe(exe, args=(), timeout=10, stdin=None)
                                                  -> RunResult(status, stdout, stderr); status is
                                                  "ok" | "exit:<n>" | "signal:<n>" | "timeout"
    res = build_and_run(workdir, ppci_objs, sources, args=(), cflags=(), timeout=10)
                                                  ppci_objs: {"name.o": ppci object}, sources: {"drv.c": text, "shim.S": text}
                                                  writes everything into workdir, links workdir/exe, runs it
    have_toolchain() -> None | reason             gcc present?

The executable is started by the calling process, so it inherits `setarch -R` (no ASLR) from ./check.
A crash or timeout of the program is a *result* (RunResult.status), never an exception; a gcc/ld failure on
the inputs raises ToolError (the harness generated something the trusted tool rejects, or ppci's ELF is
unusable - callers decide which).
"""

import collections
import io
import os
import shutil
import signal
import subprocess

RunResult = collections.namedtuple("RunResult", "status stdout stderr")


class ToolError(Exception):
    """gcc/ld missing or failed."""

    def __init__(self, msg, stderr=""):
        super().__init__(msg + ("\n" + stderr if stderr else ""))
        self.stderr = stderr


def have_toolchain():
    if shutil.which("gcc") is None:
        return "gcc not found"
    return None


_ARCH = {}


def get_arch(options=None):
    """One X86_64Arch per process and option tuple (building the arch costs ~0.1 s)."""
    key = tuple(options or ())
    if key not in _ARCH:
        from ppci.api import get_arch as ppci_get_arch

        _ARCH[key] = ppci_get_arch("x86_64" + "".join(":" + o for o in key))
    return _ARCH[key]


def ppci_cc(src, march=None, **kw):
    """Compile C source text with ppci for x86-64 and return the object."""
    from ppci.api import cc

    return cc(io.StringIO(src), march if march is not None else get_arch(), **kw)


def write_relocatable(obj, path):
    from ppci.format.elf import write_elf

    with open(path, "wb") as f:
        write_elf(obj, f, type="relocatable")


def gcc_link(exe, inputs, cflags=(), timeout=300):
    cmd = ["gcc", "-no-pie", "-Wl,-z,noexecstack", "-w"] + list(cflags) + list(inputs) + ["-o", exe]
    try:
        p = subprocess.run(cmd, capture_output=True, text=True, timeout=timeout)
    except FileNotFoundError:
        raise ToolError("gcc not found")
    except subprocess.TimeoutExpired:
        raise ToolError("gcc timed out: " + " ".join(cmd))
    if p.returncode != 0:
        raise ToolError("gcc failed: " + " ".join(cmd), p.stderr[-4000:])


def run_exe(exe, args=(), timeout=10, stdin=None):
    try:
        p = subprocess.run([exe] + [str(a) for a in args], capture_output=True, timeout=timeout, input=stdin)
    except subprocess.TimeoutExpired as e:
        return RunResult("timeout", (e.stdout or b"").decode("latin-1"), (e.stderr or b"").decode("latin-1"))
    out = p.stdout.decode("latin-1")
    err = p.stderr.decode("latin-1")
    if p.returncode == 0:
        return RunResult("ok", out, err)
    if p.returncode < 0:
        return RunResult("signal:%d" % -p.returncode, out, err)
    return RunResult("exit:%d" % p.returncode, out, err)


def signal_name(status):
    if status.startswith("signal:"):
        try:
            return signal.Signals(int(status[7:])).name
        except ValueError:
            pass
    return status


def build_and_run(workdir, ppci_objs, sources, args=(), cflags=(), timeout=10):
    """Write the ppci objects and the foreign sources into workdir, link them into workdir/exe, run."""
    exe = build(workdir, ppci_objs, sources, cflags)
    return run_exe(exe, args, timeout)


def build(workdir, ppci_objs, sources, cflags=()):
    os.makedirs(workdir, exist_ok=True)
    inputs = []
    for name, text in sources.items():
        path = os.path.join(workdir, name)
        with open(path, "w") as f:
            f.write(text)
        if not name.endswith(".h"):
            inputs.append(path)
    for name, obj in ppci_objs.items():
        path = os.path.join(workdir, name)
        write_relocatable(obj, path)
        inputs.append(path)
    exe = os.path.join(workdir, "exe")
    gcc_link(exe, inputs, cflags)
    return exe
