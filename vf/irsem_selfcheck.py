"""Stand-alone self-validation of the reference IR interpreter vf/irsem.py (DESIGN.md 3.1).

Independent of ppci's optimiser and back ends; ppci.ir is only used as the data structure that irsem reads.

(a) operator-level differential against gcc.  One C translation unit over <stdint.h> types with one tiny function
    per (operator, type), (unary operator, type), (cast source, cast destination) and (condition, type) is compiled
    with `gcc -O0 -fwrapv` into an executable that reads (function index, operand, operand) records and writes the
    results.  Every function is evaluated on boundary operands and on a deterministic pseudo-random sample (fixed LCG)
    and compared with irsem's scalar helpers (int_binop, float_binop, norm_int, int_to_float, float_to_int, round_f32,
    compare) and, through one-instruction IR functions, with irsem.Machine itself (Binop, Unop, Cast, CJump).  gcc is
    only asked on the defined domain; where this file's own (independent) predicate calls a vector undefined, irsem
    must raise Undef, and nowhere else.  NaN results compare as a class, zeros by sign bit.
(a') a small table of hand-computed results at type boundaries (no gcc involved).
(b) hand-built ir modules with results written out by hand: parallel phis, loops, Alloc/Load/Store with narrow types and
    byte order, initialised globals with (ptr, name) references, CopyBlob, internal/external/indirect calls,
    Undefined, uninitialised and out-of-bounds accesses, fuel and recursion limits, address masking.

selfcheck(level) -> summary dict (raises core.HarnessError on disagreement); the result is cached in /verif/.build
keyed by the hash of irsem.py + this file + level.  `python -m vf.irsem_selfcheck [quick|thorough] [--irsem FILE]`
runs it uncached (FILE: another copy of irsem.py, used for the sensitivity demonstration in notes/irsem_selfcheck.md).
"""

import array
import hashlib
import json
import math
import os
import shutil
import struct
import subprocess
import sys
import tempfile
import time

from .core import REPO, HarnessError

M64 = (1 << 64) - 1
INT_TYPES = [("i8", 8, True), ("u8", 8, False), ("i16", 16, True), ("u16", 16, False),
             ("i32", 32, True), ("u32", 32, False), ("i64", 64, True), ("u64", 64, False)]
INT_INFO = {n: (b, s) for n, b, s in INT_TYPES}
FLOAT_INFO = {"f32": 32, "f64": 64}
ALL_TYPES = [t[0] for t in INT_TYPES] + ["f32", "f64"]
CTYPE = {"i8": "int8_t", "u8": "uint8_t", "i16": "int16_t", "u16": "uint16_t", "i32": "int32_t", "u32": "uint32_t",
         "i64": "int64_t", "u64": "uint64_t", "f32": "float", "f64": "double"}
INT_BINOPS = ["+", "-", "*", "/", "%", "&", "|", "^", "<<", ">>", "rol", "ror"]
FLOAT_BINOPS = ["+", "-", "*", "/"]
CONDS = ["==", "!=", "<", ">", "<=", ">="]
_OPNAME = {"+": "add", "-": "sub", "*": "mul", "/": "div", "%": "rem", "&": "and", "|": "or", "^": "xor", "<<": "shl",
           ">>": "shr", "rol": "rol", "ror": "ror", "~": "not", "==": "eq", "!=": "ne", "<": "lt", ">": "gt", "<=": "le",
           ">=": "ge"}


# ---------------------------------------------------------------------------
# independent scalar helpers (deliberately not irsem's)


def _wrap(v, bits, signed):
    v %= 1 << bits
    if signed and v >= 1 << (bits - 1):
        v -= 1 << bits
    return v


def _irange(ty):
    bits, signed = INT_INFO[ty]
    return (-(1 << (bits - 1)), (1 << (bits - 1)) - 1) if signed else (0, (1 << bits) - 1)


def _to_f32(x):
    if x != x or x in (math.inf, -math.inf):
        return x
    try:
        return struct.unpack("<f", struct.pack("<f", x))[0]
    except OverflowError:
        return math.copysign(math.inf, x)


def _enc(ty, v):
    """Python value -> the 64-bit pattern the C side decodes."""
    if ty == "f64":
        return struct.unpack("<Q", struct.pack("<d", v))[0]
    if ty == "f32":
        return struct.unpack("<I", struct.pack("<f", v))[0]
    return v & M64


def _dec(ty, raw):
    if ty == "f64":
        return struct.unpack("<d", struct.pack("<Q", raw))[0]
    if ty == "f32":
        return struct.unpack("<f", struct.pack("<I", raw & 0xFFFFFFFF))[0]
    if ty == "bool":
        return raw
    bits, signed = INT_INFO[ty]
    v = raw - (1 << 64) if (signed and raw >> 63) else raw
    lo, hi = _irange(ty)
    if not lo <= v <= hi:
        raise HarnessError("irsem_selfcheck: C side returned %d for type %s" % (v, ty))
    return v


def _same(ty, x, y):
    """x: irsem's value, y: reference value (already a python value of the right kind)."""
    if ty in FLOAT_INFO:
        if not isinstance(x, float):
            return False
        if x != x or y != y:
            return x != x and y != y
        return struct.pack("<d", x) == struct.pack("<d", y)
    if isinstance(x, bool):
        x = int(x)
    return isinstance(x, int) and x == y


def _show(v):
    if isinstance(v, float):
        return "%r[%s]" % (v, struct.pack(">d", v).hex())
    return repr(v)


class _LCG:
    """Knuth's 64-bit LCG; two steps per output, high halves only."""

    def __init__(self, seed):
        self.s = seed & M64

    def u64(self):
        self.s = (self.s * 6364136223846793005 + 1442695040888963407) & M64
        hi = self.s >> 32
        self.s = (self.s * 6364136223846793005 + 1442695040888963407) & M64
        return (hi << 32) | (self.s >> 32)

    def below(self, n):
        return self.u64() % n


def _seed(text):
    return int.from_bytes(hashlib.blake2b(text.encode(), digest_size=8).digest(), "big")


# ---------------------------------------------------------------------------
# operand sets


def _int_boundary(ty, full, ties=True):
    bits, signed = INT_INFO[ty]
    lo, hi = _irange(ty)
    vals = {0, 1, 2, 3, 5, 7, 10, lo, lo + 1, lo + 2, hi, hi - 1, hi - 2, bits - 1, bits, bits + 1, -1, -2, -3, -7, -bits}
    if full:
        ks = set(range(1, bits + 1))
    else:
        ks = {1, 2, 3, 4, bits // 2 - 1, bits // 2, bits // 2 + 1, bits - 2, bits - 1, bits}
        if bits == 64:
            ks |= {24, 25, 31, 32, 33, 53, 54}
    for k in ks:
        for d in (-1, 0, 1):
            vals.add((1 << k) + d)
            vals.add(-((1 << k) + d))
    for pat in (0x5555555555555555, 0xAAAAAAAAAAAAAAAA, 0x3333333333333333, 0x0F0F0F0F0F0F0F0F, 0x8000000000000001,
                0x7FFFFFFFFFFFFFFE, 0x0123456789ABCDEF, 0xFEDCBA9876543210):
        vals.add(_wrap(pat, bits, signed))
        vals.add(_wrap(pat >> (64 - bits), bits, signed))
    if bits >= 32 and ties:
        # integers whose conversion to f32 / f64 is a rounding tie or just beside one
        for k in range(25, bits + 1):
            if not full and k not in (25, 26, 31, 32, 33, 54, 55, 60, 63, 64):
                continue
            top = 1 << (k - 1)
            for mant in (24, 53):
                if k <= mant:
                    continue
                half = 1 << (k - mant - 1)
                for base in (top, top | (half << 1), top | (top - 1) & ~((half << 1) - 1)):
                    for dust in (0, 1, -1):
                        vals.add(base + half + dust)
                        vals.add(-(base + half + dust))
    return sorted(v for v in vals if lo <= v <= hi)


def _int_core(ty):
    bits, signed = INT_INFO[ty]
    lo, hi = _irange(ty)
    vals = {0, 1, 2, 3, lo, lo + 1, hi, hi - 1, -1, -2, bits - 1, bits, _wrap(0x5555555555555555, bits, signed),
            _wrap(0xAAAAAAAAAAAAAAAA, bits, signed), 1 << (bits - 2), (1 << (bits // 2)) + 1, -(1 << (bits // 2))}
    return sorted(v for v in vals if lo <= v <= hi)


def _rand_int(rng, ty, bvals):
    bits, signed = INT_INFO[ty]
    m = rng.below(8)
    if m < 3:
        v = rng.u64()
    elif m < 5:
        v = rng.u64() & ((1 << rng.below(bits + 1)) - 1)
        if rng.below(2):
            v = -v
    elif m == 5:
        v = rng.below(33) - 16
    elif m == 6:
        v = bvals[rng.below(len(bvals))] + rng.below(5) - 2
    else:
        if bits < 32:
            v = rng.u64()
        else:
            mant = 24 if (rng.below(2) or bits <= 53) else 53
            k = mant + 1 + rng.below(bits - mant)  # bit length
            top = (1 << (mant - 1)) | (rng.u64() & ((1 << (mant - 1)) - 1))
            sh = k - mant
            v = top << sh
            if sh > 0:
                v |= 1 << (sh - 1)
                v += (0, 1, -1, 0)[rng.below(4)] if sh > 1 else 0
            if rng.below(2):
                v = -v
    return _wrap(v, bits, signed)


_F64_BOUNDARY = None


def _float_boundary(ty):
    """Boundary values of f64 (ty == 'f64') or the f32 values (as python floats) for 'f32'."""
    global _F64_BOUNDARY
    if _F64_BOUNDARY is None:
        v = [0.0, -0.0, 1.0, -1.0, 0.5, -0.5, 1.5, 2.5, -2.5, 3.5, -3.5, 0.1, 1.0 / 3.0, 0.7, -0.7, 0.9, -0.9, 0.999999, 10.0, 3.0,
             math.inf, -math.inf, math.nan, 1.7976931348623157e308, -1.7976931348623157e308, 2.2250738585072014e-308,
             5e-324, -5e-324, 1e300, 1e-300, 1e38, 3e38, 3.5e38, -3.5e38, 1e-40, 1e-46,
             3.4028234663852886e38, 3.4028235677973366e38, 3.4028235677973362e38, 3.402823567797337e38,  # FLT_MAX, the tie above it, its neighbours
             1.1754943508222875e-38, 1.401298464324817e-45, 7.006492321624085e-46, 7.00649232162409e-46, 7.0064923216240e-46,
             1.0 + 2.0 ** -24, 1.0 + 2.0 ** -23 + 2.0 ** -24, 1.0 + 2.0 ** -24 + 2.0 ** -52, 1.0 + 2.0 ** -52, 1.0 - 2.0 ** -53,
             16777216.0, 16777217.0, 16777215.0, 16777219.0, 9007199254740992.0, 9007199254740994.0, 9007199254740991.0,
             127.0, 127.5, 127.99, 128.0, -128.0, -128.5, -128.99, -129.0, 255.0, 255.5, 255.99, 256.0, 256.5,
             32767.0, 32767.5, 32768.0, -32768.0, -32768.5, -32769.0, 65535.0, 65535.5, 65535.9, 65536.0,
             2147483647.0, 2147483647.5, 2147483648.0, -2147483648.0, -2147483648.5, -2147483648.9, -2147483649.0, 2147483520.0, 2147483904.0,
             4294967295.0, 4294967295.5, 4294967296.0, 4294967296.5, 4294967040.0,
             9223372036854775808.0, 9223372036854774784.0, 9223372036854777856.0, -9223372036854775808.0, -9223372036854777856.0,
             9223371487098961920.0, 18446744073709551616.0, 18446744073709549568.0, 18446742974197923840.0, 1.8446744073709556e19,
             4611686018427387904.0, 1e15, 1e6 + 0.5, 123456789.125, -123456789.125, 6.02e23, 1e-7]
        _F64_BOUNDARY = v
    if ty == "f64":
        return list(_F64_BOUNDARY)
    out, seen = [], set()
    for x in _F64_BOUNDARY:
        y = _to_f32(x)
        key = "nan" if y != y else struct.pack("<d", y)
        if key not in seen:
            seen.add(key)
            out.append(y)
    return out


_F_CORE = [0.0, -0.0, 1.0, -1.0, 0.5, -2.5, math.inf, -math.inf, math.nan, 3e38, 1e-40, 16777217.0, 1.0 / 3.0, 2147483648.0,
           -2147483649.0, 1.8446744073709552e19, 255.5, -128.5]


def _float_core(ty):
    return [x if ty == "f64" else _to_f32(x) for x in _F_CORE]


_FRACS = (0.0, 0.5, -0.5, 0.25, 0.75, 0.999, -0.999, 0.001)


def _rand_float(rng, ty, bvals):
    m = rng.below(8)
    if m < 2:
        if ty == "f64":
            v = struct.unpack("<d", struct.pack("<Q", rng.u64()))[0]
        else:
            v = struct.unpack("<f", struct.pack("<I", rng.u64() & 0xFFFFFFFF))[0]
    elif m < 5:
        i = rng.u64() & ((1 << rng.below(66)) - 1)
        v = float(i) + _FRACS[rng.below(len(_FRACS))]
        if rng.below(2):
            v = -v
    elif m == 5:
        eps = 2.0 ** -23 if ty == "f32" else 2.0 ** -52
        v = bvals[rng.below(len(bvals))] * (1.0 + (rng.below(5) - 2) * eps)
    elif m == 6:
        v = (rng.below(4001) - 2000) / 8.0
    else:
        v = math.ldexp(float(rng.u64() >> 11), rng.below(240) - 170)
        if rng.below(2):
            v = -v
    return _to_f32(v) if ty == "f32" else v


# ---------------------------------------------------------------------------
# cases


class Case:
    __slots__ = ("kind", "op", "aty", "bty", "rty", "label", "cname", "csrc", "vecs", "small", "index")

    def __init__(self, kind, op, aty, bty, rty):
        self.kind, self.op, self.aty, self.bty, self.rty = kind, op, aty, bty, rty
        if kind == "cast":
            self.label = "cast %s -> %s" % (aty, rty)
            self.cname = "cast_%s_%s" % (aty, rty)
        else:
            self.label = "%s %s %s" % (kind, aty, op)
            self.cname = "%s_%s_%s" % (kind, _OPNAME[op] if not (kind == "unop" and op == "-") else "neg", aty)
        self.csrc = self.vecs = self.small = self.index = None


def _c_in(ty, arg):
    if ty == "f32":
        return "f32_in(%s)" % arg
    if ty == "f64":
        return "f64_in(%s)" % arg
    if INT_INFO[ty][1]:
        return "(%s)(int64_t)%s" % (CTYPE[ty], arg)
    return "(%s)%s" % (CTYPE[ty], arg)


def _c_out(ty, expr):
    if ty == "f32":
        return "f32_out(%s)" % expr
    if ty == "f64":
        return "f64_out(%s)" % expr
    if ty == "bool":
        return "(uint64_t)(%s)" % expr
    if INT_INFO[ty][1]:
        return "(uint64_t)(int64_t)(%s)" % expr
    return "(uint64_t)(%s)" % expr


def _c_expr(case):
    """C expression with the IR semantics, over variables x (and y) of the operand type."""
    kind, op, ty = case.kind, case.op, case.aty
    if kind == "cast":
        return "(%s)x" % CTYPE[case.rty]
    if kind == "cmp":
        return "x %s y" % op
    if ty in FLOAT_INFO:
        return "x %s y" % op if kind == "binop" else "-x"
    bits, signed = INT_INFO[ty]
    ct = CTYPE[ty]
    uct = CTYPE["u%d" % bits]
    w = "uint64_t" if bits == 64 else "uint32_t"  # modular arithmetic is done here: no signed overflow, no promotion to int
    ux, uy = "(%s)(%s)x" % (w, uct), "(%s)(%s)y" % (w, uct)
    if kind == "unop":
        return "(%s)(%s)((%s)0 - %s)" % (ct, uct, w, ux) if op == "-" else "(%s)(~x)" % ct
    if op in ("+", "-", "*"):
        return "(%s)(%s)(%s %s %s)" % (ct, uct, ux, op, uy)
    if op in ("/", "%", "&", "|", "^"):
        return "(%s)(x %s y)" % (ct, op)
    if op == "<<":
        return "(%s)(%s)(%s << (int)y)" % (ct, uct, ux)
    if op == ">>":
        return "(%s)(x >> (int)y)" % ct  # gcc: arithmetic for signed x
    left, right = ("<<", ">>") if op == "rol" else (">>", "<<")
    return "(%s)(%s)((%s %s (int)y) | (%s %s ((%d - (int)y) & %d)))" % (ct, uct, ux, left, ux, right, bits, bits - 1)


def _c_function(case):
    lines = ["static uint64_t %s(uint64_t a, uint64_t b) {" % case.cname,
             "  %s x = %s;" % (CTYPE[case.aty], _c_in(case.aty, "a"))]
    if case.bty:
        lines.append("  %s y = %s;" % (CTYPE[case.bty], _c_in(case.bty, "b")))
    else:
        lines.append("  (void)b;")
    rct = "int" if case.rty == "bool" else CTYPE[case.rty]
    lines.append("  %s r = %s;" % (rct, _c_expr(case)))
    lines.append("  return %s;" % _c_out(case.rty, "r"))
    lines.append("}")
    return "\n".join(lines)


_C_PROLOGUE = """#include <stdint.h>
#include <stdio.h>
#include <string.h>
static float f32_in(uint64_t a) { uint32_t u = (uint32_t)a; float f; memcpy(&f, &u, 4); return f; }
static double f64_in(uint64_t a) { double f; memcpy(&f, &a, 8); return f; }
static uint64_t f32_out(float f) { uint32_t u; memcpy(&u, &f, 4); return u; }
static uint64_t f64_out(double f) { uint64_t u; memcpy(&u, &f, 8); return u; }
"""

_C_MAIN = """
typedef uint64_t (*fn_t)(uint64_t, uint64_t);
static const fn_t TABLE[] = {
%s
};
#define NFUNCS (sizeof TABLE / sizeof TABLE[0])
int main(void) {
  static uint64_t in[3 * 4096], out[4096];
  size_t n, i;
  while ((n = fread(in, 24, 4096, stdin)) > 0) {
    for (i = 0; i < n; i++) {
      if (in[3 * i] >= NFUNCS) return 3;
      out[i] = TABLE[in[3 * i]](in[3 * i + 1], in[3 * i + 2]);
    }
    if (fwrite(out, 8, n, stdout) != n) return 4;
  }
  return 0;
}
"""


def make_cases():
    cases = []
    for ty, _, _ in INT_TYPES:
        for op in INT_BINOPS:
            cases.append(Case("binop", op, ty, ty, ty))
        for op in ("-", "~"):
            cases.append(Case("unop", op, ty, None, ty))
    for ty in FLOAT_INFO:
        for op in FLOAT_BINOPS:
            cases.append(Case("binop", op, ty, ty, ty))
        cases.append(Case("unop", "-", ty, None, ty))
    for s in ALL_TYPES:
        for d in ALL_TYPES:
            cases.append(Case("cast", "cast", s, None, d))
    for ty in ALL_TYPES:
        for op in CONDS:
            cases.append(Case("cmp", op, ty, ty, "bool"))
    for i, c in enumerate(cases):
        c.index = i
        c.csrc = _c_function(c)
    return cases


def c_source(cases):
    return _C_PROLOGUE + "\n".join(c.csrc for c in cases) + _C_MAIN % ",\n".join("  " + c.cname for c in cases)


def undef_class(case, a, b):
    """The documented undefined set (DESIGN 3.1), decided here without irsem.  None = defined."""
    if case.kind == "binop" and case.aty in INT_INFO:
        bits, signed = INT_INFO[case.aty]
        if case.op in ("/", "%"):
            if b == 0:
                return "divisor 0"
            if signed and a == -(1 << (bits - 1)) and b == -1:
                return "MIN / -1"
        elif case.op in ("<<", ">>", "rol", "ror"):
            if not 0 <= b < bits:
                return "count outside [0, N)"
    elif case.kind == "cast" and case.aty in FLOAT_INFO and case.rty in INT_INFO:
        if a != a or a in (math.inf, -math.inf):
            return "float->int of NaN/inf"
        lo, hi = _irange(case.rty)
        if not lo <= int(a) <= hi:  # int() truncates toward zero, exactly
            return "float->int out of range"
    return None


class Vectors:
    """Operand vectors per case, generated on demand (a thorough run would not fit in memory otherwise)."""

    def __init__(self, level):
        self.thorough = level == "thorough"
        self.nrand = 4000 if self.thorough else 160
        self.unary, self.binary, self.core = {}, {}, {}

    def _prepare(self, ty):
        if ty in self.unary:
            return
        if ty in INT_INFO:
            self.unary[ty] = _int_boundary(ty, self.thorough)
            # binary operators: without the float-rounding tie patterns (they matter to casts only)
            self.binary[ty] = _int_boundary(ty, self.thorough, ties=False)
            self.core[ty] = _int_core(ty)
        else:
            self.unary[ty] = self.binary[ty] = _float_boundary(ty)
            self.core[ty] = _float_core(ty)

    def fill(self, c):
        """Sets c.vecs (all vectors) and c.small (those also executed by irsem.Machine)."""
        thorough, nrand = self.thorough, self.nrand
        ty = c.aty
        self._prepare(ty)
        core = self.core[ty]
        rng = _LCG(_seed(c.label))
        isint = ty in INT_INFO
        rnd = _rand_int if isint else _rand_float
        if c.bty is None:
            bv = self.unary[ty]
            vecs = [(a, None) for a in bv]
            if c.kind == "cast" and not isint and c.rty in INT_INFO:
                lo, hi = _irange(c.rty)
                for e in (lo, hi, lo - 1, hi + 1):  # the edges of the destination range, from both sides
                    for d in (0.0, 0.25, -0.25, 0.5, -0.5, 0.999, -0.999, 1.0, -1.0, 1.001, -1.001):
                        x = float(e) + d
                        vecs.append((_to_f32(x) if ty == "f32" else x, None))
                    for x in (float(e), float(e) * (1 + 2.0 ** -23), float(e) * (1 - 2.0 ** -23), float(e) * (1 + 2.0 ** -52), float(e) * (1 - 2.0 ** -52)):
                        vecs.append((_to_f32(x) if ty == "f32" else x, None))
            nb = len(vecs)
            vecs += [(rnd(rng, ty, bv), None) for _ in range(nrand * 5 if thorough else nrand * 2)]
            c.vecs = vecs
            c.small = vecs if not thorough else vecs[: nb + 1000]
            return
        bv = self.binary[ty]
        shiftlike = isint and c.op in ("<<", ">>", "rol", "ror")
        if shiftlike:
            bits = INT_INFO[ty][0]
            lo, hi = _irange(ty)
            bs = sorted(set(v for v in list(range(-2, bits + 3)) + core if lo <= v <= hi))
            avals = bv if (thorough or len(bv) <= 64) else sorted(set(core) | set(bv[::3]))
        elif len(bv) > 64 and not thorough:
            # a x a would be large: full boundary set against the core set, both ways
            avals, bs = bv, core
        else:
            avals, bs = bv, bv
        vecs = [(a, b) for a in avals for b in bs]
        if bs is core:
            vecs += [(a, b) for a in core for b in bv if b not in core]
        for _ in range(nrand):
            a = rnd(rng, ty, bv)
            b = rnd(rng, ty, bv)
            if shiftlike and rng.below(4):
                b = rng.below(INT_INFO[ty][0])
            elif isint and c.op in ("/", "%") and rng.below(2):
                b = _wrap(rng.below(25) - 12, *INT_INFO[ty]) or 3
            vecs.append((a, b))
        c.vecs = vecs
        small = [(a, b) for a in core for b in (bs if shiftlike else core)]
        c.small = small + vecs[len(vecs) - nrand:][: 40 if not thorough else 400]


# ---------------------------------------------------------------------------
# gcc side


def gcc_build(cases, tmpdir):
    src = os.path.join(tmpdir, "irsem_ops.c")
    exe = os.path.join(tmpdir, "irsem_ops")
    with open(src, "w") as f:
        f.write(c_source(cases))
    p = subprocess.run(["gcc", "-O0", "-fwrapv", "-fno-builtin", "-std=gnu11", "-Wall", "-Wno-unused-function", "-o", exe, src], capture_output=True)
    if p.returncode != 0:
        raise HarnessError("irsem_selfcheck: gcc failed:\n" + p.stderr.decode(errors="replace")[:2000])
    return exe


def gcc_run(exe, c):
    """Evaluate the defined vectors of one case.  Returns [raw result or None per vector] and the number evaluated."""
    rec = array.array("Q")
    where = []
    idx = c.index
    for j, (a, b) in enumerate(c.vecs):
        if undef_class(c, a, b) is None:
            rec.append(idx)
            rec.append(_enc(c.aty, a))
            rec.append(_enc(c.bty, b) if c.bty else 0)
            where.append(j)
    p = subprocess.run([exe], input=rec.tobytes(), capture_output=True)
    if p.returncode != 0 or len(p.stdout) != 8 * len(where):
        raise HarnessError("irsem_selfcheck: operator executable failed on %s (status %s, %d of %d results)" % (c.label, p.returncode, len(p.stdout) // 8, len(where)))
    out = array.array("Q")
    out.frombytes(p.stdout)
    res = [None] * len(c.vecs)
    for j, raw in zip(where, out):
        res[j] = raw
    return res, len(where)


# ---------------------------------------------------------------------------
# irsem side


def via_helper(sem, case, a, b):
    """The scalar helper irsem itself uses for this case; NotImplemented when the rule lives in Machine only."""
    kind, ty = case.kind, case.aty
    if kind == "binop":
        if ty in INT_INFO:
            return sem.int_binop(case.op, a, b, *INT_INFO[ty])
        return sem.float_binop(case.op, a, b, FLOAT_INFO[ty])
    if kind == "cmp":
        r = sem.compare(case.op, a, b)
        if not isinstance(r, bool):
            raise TypeError("compare returned %r" % (r,))
        return int(r)
    if kind == "cast":
        d = case.rty
        if ty in INT_INFO and d in INT_INFO:
            return sem.norm_int(a, *INT_INFO[d])
        if ty in INT_INFO:
            return sem.int_to_float(a, FLOAT_INFO[d])
        if d in INT_INFO:
            return sem.float_to_int(a, *INT_INFO[d])
        if d == "f32":
            return sem.round_f32(a)
    return NotImplemented


class _CaseMachine:
    """One-instruction IR function for a case, executed by irsem.Machine."""

    def __init__(self, sem, ir, case):
        T = {t.name: t for t in ir.value_types}
        m = ir.Module("op")
        rty = T["i32"] if case.rty == "bool" else T[case.rty]
        f = ir.Function("f", ir.Binding.GLOBAL, rty)
        pa = ir.Parameter("a", T[case.aty])
        f.add_parameter(pa)
        pb = None
        if case.bty:
            pb = ir.Parameter("b", T[case.bty])
            f.add_parameter(pb)
        m.add_function(f)
        entry = ir.Block("entry")
        f.entry = entry
        f.add_block(entry)
        if case.kind == "cmp":
            yes, no = ir.Block("yes"), ir.Block("no")
            f.add_block(yes)
            f.add_block(no)
            entry.add_instruction(ir.CJump(pa, case.op, pb, yes, no))
            for blk, v in ((yes, 1), (no, 0)):
                c = ir.Const(v, "c%d" % v, rty)
                blk.add_instruction(c)
                blk.add_instruction(ir.Return(c))
        else:
            if case.kind == "binop":
                r = ir.Binop(pa, case.op, pb, "r", rty)
            elif case.kind == "unop":
                r = ir.Unop(case.op, pa, "r", rty)
            else:
                r = ir.Cast(pa, "r", rty)
            entry.add_instruction(r)
            entry.add_instruction(ir.Return(r))
        self.machine = sem.Machine(m)
        self.arity = 2 if case.bty else 1

    def __call__(self, a, b):
        return self.machine.call("f", [a, b] if self.arity == 2 else [a])


def _call_text(case, a, b):
    if case.bty:
        return "%s on (%s, %s)" % (case.label, _show(a), _show(b))
    return "%s on %s" % (case.label, _show(a))


def compare_ops(sem, ir, cases, vectors, exe, problems, counts, limit=40):
    """Compare helpers and Machine with the gcc results (exe may be None: only the Undef set is checked)."""
    for c in cases:
        vectors.fill(c)
        counts["vectors"] += len(c.vecs)
        results = None
        if exe is not None:
            results, n = gcc_run(exe, c)
            counts["gcc"] += n
        mach = _CaseMachine(sem, ir, c)
        small = set()
        for a, b in c.small:
            small.add((_enc(c.aty, a), _enc(c.bty, b) if c.bty else 0))
        rty = c.rty
        for j, (a, b) in enumerate(c.vecs):
            und = undef_class(c, a, b)
            want = None
            if und is None and results is not None:
                want = _dec(rty, results[j])
            routes = [("helper", via_helper)]
            if (_enc(c.aty, a), _enc(c.bty, b) if c.bty else 0) in small:
                routes.append(("Machine", None))
            for rname, fn in routes:
                try:
                    got = fn(sem, c, a, b) if fn else mach(a, b)
                    if got is NotImplemented:
                        continue
                    raised = None
                except sem.Undef as e:
                    got, raised = None, e.reason
                except Exception as e:  # noqa: BLE001 - anything else is a defect of the oracle
                    problems.append("%s: irsem %s raised %s: %s" % (_call_text(c, a, b), rname, type(e).__name__, e))
                    continue
                counts[rname] += 1
                if und is not None:
                    counts["undef:" + und] += 1
                    if raised is None:
                        problems.append("%s: documented undefined (%s) but irsem %s returns %s" % (_call_text(c, a, b), und, rname, _show(got)))
                elif raised is not None:
                    problems.append("%s: defined (gcc: %s) but irsem %s raises Undef(%s)" % (_call_text(c, a, b), _show(want) if want is not None else "-", rname, raised))
                elif want is not None and not _same("f64" if rty in FLOAT_INFO else rty, got, want):
                    problems.append("%s: irsem %s gives %s, gcc gives %s" % (_call_text(c, a, b), rname, _show(got), _show(want)))
            if len(problems) >= limit:
                return
        c.vecs = c.small = None
    # operators outside the menu
    for bits in (32, 64):
        try:
            sem.float_binop("%", 5.0, 3.0, bits)
            problems.append("float_binop('%%') on f%d is documented undefined but returns a value" % bits)
        except sem.Undef:
            counts["undef:float %"] += 1


# ---------------------------------------------------------------------------
# (a') results computed by hand at type boundaries.  "U" = must raise Undef.

HAND_TABLE = [
    ("binop", "+", "i8", 127, 1, -128), ("binop", "+", "u8", 255, 1, 0), ("binop", "-", "u16", 0, 1, 65535),
    ("binop", "-", "i32", -2147483648, 1, 2147483647), ("binop", "*", "u8", 200, 2, 144), ("binop", "*", "i8", 16, 8, -128),
    ("binop", "*", "i16", 256, 255, -256), ("binop", "*", "u32", 65536, 65536, 0), ("binop", "*", "i64", 4294967296, 4294967296, 0),
    ("binop", "*", "u64", 0xFFFFFFFFFFFFFFFF, 0xFFFFFFFFFFFFFFFF, 1), ("binop", "+", "i64", 9223372036854775807, 1, -9223372036854775808),
    ("binop", "/", "i32", -7, 2, -3), ("binop", "%", "i32", -7, 2, -1), ("binop", "/", "i32", 7, -2, -3), ("binop", "%", "i32", 7, -2, 1),
    ("binop", "/", "i8", -128, 127, -1), ("binop", "%", "i8", -128, 127, -1), ("binop", "/", "u8", 255, 2, 127), ("binop", "%", "u8", 255, 254, 1),
    ("binop", "/", "i8", -128, -1, "U"), ("binop", "%", "i8", -128, -1, "U"), ("binop", "/", "i64", -9223372036854775808, -1, "U"),
    ("binop", "/", "u32", 5, 0, "U"), ("binop", "%", "i16", 5, 0, "U"), ("binop", "/", "i8", -127, -1, 127),
    ("binop", "/", "u64", 0xFFFFFFFFFFFFFFFF, 3, 0x5555555555555555), ("binop", "%", "u64", 0xFFFFFFFFFFFFFFFF, 10, 5),
    ("binop", "&", "i8", -1, 85, 85), ("binop", "|", "i8", -128, 1, -127), ("binop", "^", "u16", 0xFFFF, 0x00FF, 0xFF00), ("binop", "^", "i32", -1, 1, -2),
    ("binop", "<<", "i8", 1, 7, -128), ("binop", "<<", "i8", -128, 1, 0), ("binop", "<<", "u8", 0x81, 1, 2), ("binop", "<<", "i32", 1, 31, -2147483648),
    ("binop", "<<", "u32", 1, 32, "U"), ("binop", "<<", "i8", 1, 8, "U"), ("binop", "<<", "i8", 1, -1, "U"), ("binop", ">>", "u64", 1, 64, "U"),
    ("binop", ">>", "i8", -128, 7, -1), ("binop", ">>", "i8", -8, 1, -4), ("binop", ">>", "u8", 0x80, 7, 1), ("binop", ">>", "u8", 0xF8, 1, 0x7C),
    ("binop", ">>", "i16", -32768, 15, -1), ("binop", ">>", "u16", 0x8000, 15, 1), ("binop", ">>", "i64", -9223372036854775808, 63, -1),
    ("binop", ">>", "u64", 0x8000000000000000, 63, 1), ("binop", ">>", "i32", -1, 31, -1), ("binop", ">>", "u32", 0xFFFFFFFF, 31, 1),
    ("binop", "rol", "u8", 0x81, 1, 0x03), ("binop", "ror", "u8", 0x81, 1, 0xC0), ("binop", "rol", "i8", -127, 1, 3), ("binop", "ror", "i8", 1, 1, -128),
    ("binop", "rol", "u16", 0x8001, 4, 0x0018), ("binop", "ror", "u32", 1, 31, 2), ("binop", "rol", "u64", 0x8000000000000000, 1, 1),
    ("binop", "rol", "u32", 0x12345678, 0, 0x12345678), ("binop", "ror", "u8", 0x12, 0, 0x12), ("binop", "rol", "u8", 1, 8, "U"), ("binop", "ror", "i16", 1, -1, "U"),
    ("unop", "-", "i8", -128, None, -128), ("unop", "-", "u8", 1, None, 255), ("unop", "~", "u16", 0, None, 65535), ("unop", "~", "i32", 0, None, -1),
    ("unop", "-", "i64", -9223372036854775808, None, -9223372036854775808), ("unop", "-", "u64", 1, None, 0xFFFFFFFFFFFFFFFF), ("unop", "~", "i8", 127, None, -128),
    ("unop", "-", "f64", 0.0, None, -0.0), ("unop", "-", "f32", -1.5, None, 1.5),
    ("cast", "i8", "u32", -1, None, 4294967295), ("cast", "u8", "i8", 255, None, -1), ("cast", "i32", "u64", -1, None, 0xFFFFFFFFFFFFFFFF),
    ("cast", "u32", "i64", 4294967295, None, 4294967295), ("cast", "i16", "u8", -255, None, 1), ("cast", "u64", "i16", 0x18000, None, -32768),
    ("cast", "i8", "i64", -128, None, -128), ("cast", "u16", "i16", 0x8000, None, -32768), ("cast", "i64", "i32", 0x100000000 - 2, None, -2),
    ("cast", "f64", "i32", -3.99, None, -3), ("cast", "f64", "i32", 3.99, None, 3), ("cast", "f64", "u8", 255.99, None, 255), ("cast", "f64", "u8", 256.0, None, "U"),
    ("cast", "f64", "u8", -0.99, None, 0), ("cast", "f64", "u8", -1.0, None, "U"), ("cast", "f64", "i8", -128.99, None, -128), ("cast", "f64", "i8", -129.0, None, "U"),
    ("cast", "f64", "i64", 9223372036854775808.0, None, "U"), ("cast", "f64", "i64", -9223372036854775808.0, None, -9223372036854775808),
    ("cast", "f64", "u64", 9223372036854775808.0, None, 9223372036854775808), ("cast", "f64", "u64", 18446744073709551616.0, None, "U"),
    ("cast", "f32", "i32", 2147483648.0, None, "U"), ("cast", "f32", "u32", 4294967040.0, None, 4294967040), ("cast", "f64", "i32", math.nan, None, "U"),
    ("cast", "f64", "u64", math.inf, None, "U"), ("cast", "f32", "i16", -math.inf, None, "U"),
    ("cast", "u64", "f32", 0xFFFFFFFFFFFFFFFF, None, 18446744073709551616.0), ("cast", "u64", "f64", 0xFFFFFFFFFFFFFFFF, None, 18446744073709551616.0),
    ("cast", "i64", "f64", 9007199254740993, None, 9007199254740992.0), ("cast", "i64", "f64", 9007199254740995, None, 9007199254740996.0),
    ("cast", "u32", "f32", 0xFFFFFFFF, None, 4294967296.0), ("cast", "i32", "f32", -1, None, -1.0), ("cast", "u32", "f64", 0xFFFFFFFF, None, 4294967295.0),
    ("cast", "i32", "f32", 16777217, None, 16777216.0), ("cast", "i32", "f32", 16777219, None, 16777220.0), ("cast", "i32", "f32", -16777217, None, -16777216.0),
    ("cast", "i64", "f32", (1 << 60) + (1 << 36) + 1, None, float((1 << 60) + (1 << 37))), ("cast", "i64", "f32", (1 << 60) + (1 << 36), None, float(1 << 60)),
    ("cast", "u8", "f32", 200, None, 200.0), ("cast", "i8", "f64", -128, None, -128.0), ("cast", "u64", "f64", 0x8000000000000000, None, 9223372036854775808.0),
    ("cast", "f64", "f32", 1.0 + 2.0 ** -24, None, 1.0), ("cast", "f64", "f32", 1.0 + 2.0 ** -23 + 2.0 ** -24, None, 1.0 + 2.0 ** -22),
    ("cast", "f64", "f32", 1e39, None, math.inf), ("cast", "f64", "f32", -1e39, None, -math.inf), ("cast", "f64", "f32", 0.1, None, 0.10000000149011612),
    ("cast", "f64", "f32", 3.4028235677973366e38, None, math.inf), ("cast", "f64", "f32", 3.4028235677973362e38, None, 3.4028234663852886e38),
    ("cast", "f64", "f32", 7.006492321624085e-46, None, 0.0), ("cast", "f64", "f32", 1e-46, None, 0.0), ("cast", "f64", "f32", -1e-46, None, -0.0),
    ("cast", "f32", "f64", 0.10000000149011612, None, 0.10000000149011612),
    ("binop", "+", "f32", 16777216.0, 1.0, 16777216.0), ("binop", "+", "f64", 9007199254740992.0, 1.0, 9007199254740992.0), ("binop", "*", "f32", 3e38, 10.0, math.inf),
    ("binop", "/", "f64", 1.0, 0.0, math.inf), ("binop", "/", "f64", -1.0, 0.0, -math.inf), ("binop", "/", "f64", 1.0, -0.0, -math.inf), ("binop", "/", "f32", 0.0, 0.0, math.nan),
    ("binop", "-", "f64", math.inf, math.inf, math.nan), ("binop", "*", "f64", -0.0, 5.0, -0.0), ("binop", "+", "f64", -0.0, 0.0, 0.0), ("binop", "/", "f32", 1.0, 3.0, 0.3333333432674408),
    ("binop", "*", "f64", 1e308, 10.0, math.inf), ("binop", "-", "f32", 1.0, 2.0 ** -25, 1.0),
    ("cmp", "<", "i8", -1, 1, 1), ("cmp", "<", "u8", 255, 1, 0), ("cmp", ">=", "i64", -9223372036854775808, 9223372036854775807, 0),
    ("cmp", ">", "u64", 0x8000000000000000, 0x7FFFFFFFFFFFFFFF, 1), ("cmp", "==", "f64", math.nan, math.nan, 0), ("cmp", "!=", "f64", math.nan, math.nan, 1),
    ("cmp", "<", "f64", math.nan, 1.0, 0), ("cmp", ">=", "f32", 1.0, math.nan, 0), ("cmp", "==", "f64", 0.0, -0.0, 1), ("cmp", "<", "f64", -0.0, 0.0, 0),
    ("cmp", "<=", "f32", -math.inf, math.inf, 1), ("cmp", "<=", "u16", 65535, 65535, 1), ("cmp", "!=", "i32", -1, -1, 0),
]


def check_hand_table(sem, ir, cases, problems, counts):
    index = {}
    for c in cases:
        index[(c.kind, c.op if c.kind != "cast" else c.aty, c.aty if c.kind != "cast" else c.rty)] = c
    machines = {}
    for kind, op, ty, a, b, want in HAND_TABLE:
        c = index[(kind, op, ty)]
        if c.aty == "f32":  # operands of an f32 operation are f32 values
            a, b = _to_f32(a), (_to_f32(b) if b is not None else None)
        if c.index not in machines:
            machines[c.index] = _CaseMachine(sem, ir, c)
        if (undef_class(c, a, b) is not None) != (want == "U"):
            raise HarnessError("irsem_selfcheck: hand table and undef_class disagree on %s" % _call_text(c, a, b))
        for rname, fn in (("helper", via_helper), ("Machine", None)):
            try:
                got = fn(sem, c, a, b) if fn else machines[c.index](a, b)
                if got is NotImplemented:
                    continue
            except sem.Undef as e:
                got = "U"
                if want != "U":
                    problems.append("hand table: %s: irsem %s raises Undef(%s), expected %s" % (_call_text(c, a, b), rname, e.reason, _show(want)))
                counts["hand"] += 1
                continue
            except Exception as e:  # noqa: BLE001
                problems.append("hand table: %s: irsem %s raised %s: %s" % (_call_text(c, a, b), rname, type(e).__name__, e))
                continue
            counts["hand"] += 1
            if want == "U":
                problems.append("hand table: %s: irsem %s returns %s, expected Undef" % (_call_text(c, a, b), rname, _show(got)))
            elif not _same("f64" if c.rty in FLOAT_INFO else c.rty, got, want):
                problems.append("hand table: %s: irsem %s gives %s, expected %s" % (_call_text(c, a, b), rname, _show(got), _show(want)))


# ---------------------------------------------------------------------------
# (b) hand-built modules.  Every expected value below was worked out by hand.


class _Kit:
    """Thin construction helpers over ppci.ir (data structure only) plus expectation bookkeeping."""

    def __init__(self, ir, sem, problems):
        self.ir, self.sem, self.problems = ir, sem, problems
        self.T = {t.name: t for t in ir.value_types}
        self.T["ptr"] = ir.ptr
        self.n = 0
        self.checks = 0
        self.modules = 0

    # construction
    def module(self, name):
        self.modules += 1
        return self.ir.Module(name)

    def function(self, m, name, params, ret, *block_names):
        ir = self.ir
        f = ir.Function(name, ir.Binding.GLOBAL, self.T[ret]) if ret else ir.Procedure(name, ir.Binding.GLOBAL)
        ps = []
        for pn, pt in params:
            p = ir.Parameter(pn, self.T[pt])
            f.add_parameter(p)
            ps.append(p)
        m.add_function(f)
        blocks = []
        for bn in block_names or ("entry",):
            b = ir.Block(bn)
            f.add_block(b)
            blocks.append(b)
        f.entry = blocks[0]
        return f, ps, blocks

    def variable(self, m, name, size, value=None, align=8):
        v = self.ir.Variable(name, self.ir.Binding.GLOBAL, size, align, value=value)
        m.add_variable(v)
        return v

    def _name(self, p):
        self.n += 1
        return "%s%d" % (p, self.n)

    def _add(self, b, x):
        b.add_instruction(x)
        return x

    def const(self, b, v, ty):
        return self._add(b, self.ir.Const(v, self._name("c"), self.T[ty]))

    def binop(self, b, x, op, y, ty):
        return self._add(b, self.ir.Binop(x, op, y, self._name("t"), self.T[ty]))

    def cast(self, b, x, ty):
        return self._add(b, self.ir.Cast(x, self._name("k"), self.T[ty]))

    def off(self, b, p, n):
        return self.binop(b, p, "+", self.const(b, n, "ptr"), "ptr")

    def alloc(self, b, size, align=8):
        a = self._add(b, self.ir.Alloc(self._name("alloc"), size, align))
        return self._add(b, self.ir.AddressOf(a, self._name("addr")))

    def load(self, b, p, ty):
        return self._add(b, self.ir.Load(p, self._name("ld"), self.T[ty]))

    def store(self, b, v, p):
        return self._add(b, self.ir.Store(v, p))

    def phi(self, b, ty):
        return self._add(b, self.ir.Phi(self._name("phi"), self.T[ty]))

    def call(self, b, callee, args, ty):
        return self._add(b, self.ir.FunctionCall(callee, list(args), self._name("call"), self.T[ty]))

    def pcall(self, b, callee, args):
        return self._add(b, self.ir.ProcedureCall(callee, list(args)))

    def undefined(self, b, ty):
        return self._add(b, self.ir.Undefined(self._name("undef"), self.T[ty]))

    def copy(self, b, dst, src, n):
        return self._add(b, self.ir.CopyBlob(dst, src, n))

    def ret(self, b, v):
        return self._add(b, self.ir.Return(v))

    def exit(self, b):
        return self._add(b, self.ir.Exit())

    def jump(self, b, target):
        return self._add(b, self.ir.Jump(target))

    def cjump(self, b, x, cond, y, yes, no):
        return self._add(b, self.ir.CJump(x, cond, y, yes, no))

    # expectations
    def expect(self, label, got, want):
        self.checks += 1
        if got != want or type(got) is not type(want):
            self.problems.append("module test %s: irsem gives %r, expected %r" % (label, got, want))

    def observe(self, label, m, fname, args, **kw):
        try:
            return self.sem.observe_call(m, fname, args, **kw)
        except (self.sem.Undef, self.sem.Unsupported) as e:
            self.checks += 1
            self.problems.append("module test %s: irsem raises %s(%s), expected a result" % (label, type(e).__name__, e.reason))
            return None

    def expect_obs(self, label, m, fname, args, want, **kw):
        """want: dict of the observation keys to compare (ret / globals / buffers / trace / more)."""
        obs = self.observe(label, m, fname, args, **kw)
        if obs is None:
            return
        for key, w in want.items():
            self.expect("%s [%s]" % (label, key), obs.get(key), w)

    def expect_undef(self, label, m, fname, args, reason, **kw):
        self.checks += 1
        try:
            obs = self.sem.observe_call(m, fname, args, **kw)
        except self.sem.Undef as e:
            if reason not in e.reason:
                self.problems.append("module test %s: irsem raises Undef(%s), expected Undef(...%s...)" % (label, e.reason, reason))
            return
        except self.sem.Unsupported as e:
            self.problems.append("module test %s: irsem raises Unsupported(%s), expected Undef(%s)" % (label, e.reason, reason))
            return
        self.problems.append("module test %s: irsem returns %r, expected Undef(%s)" % (label, obs, reason))


def _t_phi_swap(k):
    """a, b = b, a in a loop header: phis read the values of the previous iteration, all at once."""
    m = k.module("phi")
    f, (n,), (entry, loop, body, done) = k.function(m, "f", [("n", "i32")], "i32", "entry", "loop", "body", "done")
    a0, b0, i0, one, ten = (k.const(entry, v, "i32") for v in (1, 2, 0, 1, 10))
    k.jump(entry, loop)
    a, b, i = k.phi(loop, "i32"), k.phi(loop, "i32"), k.phi(loop, "i32")
    k.cjump(loop, i, "<", n, body, done)
    i1 = k.binop(body, i, "+", one, "i32")
    k.jump(body, loop)
    r = k.binop(done, k.binop(done, a, "*", ten, "i32"), "+", b, "i32")
    k.ret(done, r)
    for phi, first, back in ((a, a0, b), (b, b0, a), (i, i0, i1)):
        phi.set_incoming(entry, first)
        phi.set_incoming(body, back)
    for arg, want in ((0, 12), (1, 21), (2, 12), (3, 21), (-5, 12)):
        k.expect_obs("phi swap n=%d" % arg, m, "f", [arg], {"ret": want})
    # three-way rotation a, b, c = b, c, a with the phis listed in the other order
    m = k.module("phi3")
    f, (n,), (entry, loop, body, done) = k.function(m, "f", [("n", "i32")], "i32", "entry", "loop", "body", "done")
    a0, b0, c0, i0, one, ten = (k.const(entry, v, "i32") for v in (1, 2, 3, 0, 1, 10))
    k.jump(entry, loop)
    c, i, a, b = k.phi(loop, "i32"), k.phi(loop, "i32"), k.phi(loop, "i32"), k.phi(loop, "i32")
    k.cjump(loop, i, "==", n, done, body)
    i1 = k.binop(body, i, "+", one, "i32")
    k.jump(body, loop)
    r = k.binop(done, k.binop(done, k.binop(done, k.binop(done, a, "*", ten, "i32"), "+", b, "i32"), "*", ten, "i32"), "+", c, "i32")
    k.ret(done, r)
    for phi, first, back in ((a, a0, b), (b, b0, c), (c, c0, a), (i, i0, i1)):
        phi.set_incoming(entry, first)
        phi.set_incoming(body, back)
    for arg, want in ((0, 123), (1, 231), (2, 312), (3, 123), (4, 231)):
        k.expect_obs("phi rotate n=%d" % arg, m, "f", [arg], {"ret": want})
    # a phi without an input for the edge taken
    m = k.module("phibad")
    f, (n,), (entry, other, join) = k.function(m, "f", [("n", "i32")], "i32", "entry", "other", "join")
    z = k.const(entry, 0, "i32")
    k.cjump(entry, n, "==", z, join, other)
    w = k.const(other, 7, "i32")
    k.jump(other, join)
    p = k.phi(join, "i32")
    p.set_incoming(other, w)
    k.ret(join, p)
    k.expect_obs("phi with input", m, "f", [1], {"ret": 7})
    k.expect_undef("phi without input for the incoming edge", m, "f", [0], "phi")


def _t_loops(k):
    m = k.module("loops")
    # sum 1..n in i32 and product 1..n in u8 (wraps)
    f, (n,), (entry, loop, body, done) = k.function(m, "sum", [("n", "i32")], "i32", "entry", "loop", "body", "done")
    zero, one = k.const(entry, 0, "i32"), k.const(entry, 1, "i32")
    k.jump(entry, loop)
    i, s = k.phi(loop, "i32"), k.phi(loop, "i32")
    k.cjump(loop, i, "<", n, body, done)
    i1 = k.binop(body, i, "+", one, "i32")
    s1 = k.binop(body, s, "+", i1, "i32")
    k.jump(body, loop)
    k.ret(done, s)
    i.set_incoming(entry, zero), i.set_incoming(body, i1), s.set_incoming(entry, zero), s.set_incoming(body, s1)
    f, (n,), (entry, loop, body, done) = k.function(m, "prod", [("n", "u8")], "u8", "entry", "loop", "body", "done")
    zero, one = k.const(entry, 0, "u8"), k.const(entry, 1, "u8")
    k.jump(entry, loop)
    i, s = k.phi(loop, "u8"), k.phi(loop, "u8")
    k.cjump(loop, i, "<", n, body, done)
    i1 = k.binop(body, i, "+", one, "u8")
    s1 = k.binop(body, s, "*", i1, "u8")
    k.jump(body, loop)
    k.ret(done, s)
    i.set_incoming(entry, zero), i.set_incoming(body, i1), s.set_incoming(entry, one), s.set_incoming(body, s1)
    k.expect_obs("sum(10)", m, "sum", [10], {"ret": 55})
    k.expect_obs("sum(0)", m, "sum", [0], {"ret": 0})
    k.expect_obs("sum(100)", m, "sum", [100], {"ret": 5050})
    k.expect_obs("prod u8 (5)", m, "prod", [5], {"ret": 120})
    k.expect_obs("prod u8 (6) = 720 mod 256", m, "prod", [6], {"ret": 208})
    k.expect_obs("prod u8 (7) = 5040 mod 256", m, "prod", [7], {"ret": 176})
    # fuel: sum(100) executes 4 + 100 * 7 + 3 counted steps
    k.expect_undef("fuel exhausted in a long loop", m, "sum", [100], "fuel", fuel=300)
    k.expect_obs("loop within fuel", m, "sum", [100], {"ret": 5050}, fuel=1000)
    m = k.module("spin")
    f, _, (entry, spin) = k.function(m, "spin", [], "i32", "entry", "spin")
    k.jump(entry, spin)
    k.jump(spin, spin)
    k.expect_undef("endless loop", m, "spin", [], "fuel")
    k.expect_undef("endless loop, large fuel", m, "spin", [], "fuel", fuel=100000)
    m = k.module("noterm")
    f, _, (entry,) = k.function(m, "f", [], "i32", "entry")
    k.const(entry, 1, "i32")
    k.expect_undef("block without terminator", m, "f", [], "terminator")


def _t_memory(k):
    m = k.module("mem")
    out = k.variable(m, "out", 24)
    f, _, (b,) = k.function(m, "f", [], "u64")
    p = k.alloc(b, 8)
    k.store(b, k.const(b, 0x11223344, "u32"), p)
    k.store(b, k.const(b, 0xA1B2, "u16"), k.off(b, p, 4))
    k.store(b, k.const(b, -2, "i8"), k.off(b, p, 6))
    k.store(b, k.const(b, 0x7F, "u8"), k.off(b, p, 7))
    # bytes now (little endian): 44 33 22 11 B2 A1 FE 7F
    k.store(b, k.load(b, p, "u8"), out)  # 0x44
    k.store(b, k.load(b, k.off(b, p, 3), "u8"), k.off(b, out, 1))  # 0x11
    k.store(b, k.cast(b, k.load(b, k.off(b, p, 5), "i8"), "i32"), k.off(b, out, 4))  # 0xA1 = -95 -> 0xFFFFFFA1
    k.store(b, k.cast(b, k.load(b, k.off(b, p, 1), "u16"), "u32"), k.off(b, out, 8))  # 0x2233
    k.store(b, k.cast(b, k.load(b, k.off(b, p, 6), "i16"), "i32"), k.off(b, out, 12))  # 0x7FFE
    k.store(b, k.cast(b, k.load(b, k.off(b, p, 4), "i16"), "i64"), k.off(b, out, 16))  # 0xA1B2 = -24142
    k.ret(b, k.load(b, p, "u64"))
    k.expect_obs("narrow stores / loads, little endian", m, "f", [], {
        "ret": 0x7FFEA1B211223344,
        "globals": {"out": "44110000" + "a1ffffff" + "33220000" + "fe7f0000" + "b2a1ffffffffffff"}})
    # the same module on a big-endian machine: bytes 11 22 33 44 A1 B2 FE 7F
    k.expect_obs("narrow stores / loads, big endian", m, "f", [], {
        "ret": 0x11223344A1B2FE7F,
        "globals": {"out": "11440000" + "ffffffb2" + "00002233" + "fffffe7f" + "ffffffffffffa1b2"}}, little=False)  # i16 at +6 is FE 7F = -385
    # float through memory, reinterpreted
    m = k.module("fmem")
    f, _, (b,) = k.function(m, "f", [], "u32")
    p = k.alloc(b, 8)
    k.store(b, k.const(b, 1.0, "f32"), p)
    k.store(b, k.const(b, -2.0, "f32"), k.off(b, p, 4))
    k.ret(b, k.load(b, p, "u32"))
    k.expect_obs("f32 1.0 read back as u32", m, "f", [], {"ret": 0x3F800000})
    f, _, (b,) = k.function(m, "g", [], "f64")
    p = k.alloc(b, 8)
    k.store(b, k.const(b, 0x4009_21FB_5444_2D18, "u64"), p)
    k.ret(b, k.load(b, p, "f64"))
    k.expect_obs("u64 bits read back as f64", m, "g", [], {"ret": "f:400921fb54442d18"})
    f, _, (b,) = k.function(m, "c01", [], "f32")
    k.ret(b, k.const(b, 0.1, "f32"))
    k.expect_obs("f32 constant 0.1 is rounded to single", m, "c01", [], {"ret": "f:3fb99999a0000000"})
    f, (x,), (b,) = k.function(m, "widen", [("x", "f32")], "f64")
    k.ret(b, k.cast(b, x, "f64"))
    k.expect_obs("f32 argument 0.1 is rounded to single on entry", m, "widen", [0.1], {"ret": "f:3fb99999a0000000"})
    # caller-supplied buffer: observed after the call
    m = k.module("buf")
    f, (p, v), (b,) = k.function(m, "f", [("p", "ptr"), ("v", "i16")], "i32")
    old = k.load(b, k.off(b, p, 2), "u8")
    k.store(b, v, k.off(b, p, 1))
    k.ret(b, k.cast(b, old, "i32"))
    k.expect_obs("store into a buffer", m, "f", [("buf", 0), -2], {"ret": 3, "buffers": ["01feff04"]}, buffers=[b"\x01\x02\x03\x04"])
    k.expect_undef("store across the end of a buffer", m, "f", [("buf", 0), 1], "outside", buffers=[b"\x01\x02"])
    # uninitialised / out of bounds / dead objects
    m = k.module("undefmem")
    f, _, (b,) = k.function(m, "uninit", [], "i32")
    k.ret(b, k.load(b, k.alloc(b, 4), "i32"))
    f, _, (b,) = k.function(m, "partial", [], "u32")
    p = k.alloc(b, 4)
    k.store(b, k.const(b, 7, "u16"), p)
    k.ret(b, k.load(b, p, "u32"))
    f, _, (b,) = k.function(m, "partial_ok", [], "u16")
    p = k.alloc(b, 4)
    k.store(b, k.const(b, 7, "u16"), p)
    k.ret(b, k.load(b, p, "u16"))
    f, (o,), (b,) = k.function(m, "oob", [("o", "ptr")], "u8")
    p = k.alloc(b, 4)
    k.store(b, k.const(b, 0x01020304, "u32"), p)
    k.ret(b, k.load(b, k.binop(b, p, "+", o, "ptr"), "u8"))
    f, (o,), (b,) = k.function(m, "oob32", [("o", "ptr")], "u32")
    p = k.alloc(b, 8)
    k.store(b, k.const(b, 0x0102030405060708, "u64"), p)
    k.ret(b, k.load(b, k.binop(b, p, "+", o, "ptr"), "u32"))
    g4 = k.variable(m, "g4", 4, value=b"\x0a\x0b\x0c\x0d")
    f, (o,), (b,) = k.function(m, "goob", [("o", "ptr")], "u8")
    k.ret(b, k.load(b, k.binop(b, g4, "+", o, "ptr"), "u8"))
    f, (o,), (b,) = k.function(m, "gstore", [("o", "ptr")], "i32")
    k.store(b, k.const(b, 0x55, "u8"), k.binop(b, g4, "+", o, "ptr"))
    k.ret(b, k.const(b, 0, "i32"))
    f, _, (b,) = k.function(m, "escape", [], "ptr")
    p = k.alloc(b, 4)
    k.store(b, k.const(b, 1, "i32"), p)
    k.ret(b, p)
    f, _, (b,) = k.function(m, "dangling", [], "i32")
    k.ret(b, k.load(b, k.call(b, m["escape"], [], "ptr"), "i32"))
    k.expect_undef("load of an uninitialised alloca", m, "uninit", [], "uninitialised")
    k.expect_undef("load wider than what was stored", m, "partial", [], "uninitialised")
    k.expect_obs("load of exactly what was stored", m, "partial_ok", [], {"ret": 7})
    k.expect_obs("last byte of an alloca", m, "oob", [3], {"ret": 1})
    k.expect_obs("first byte of an alloca", m, "oob", [0], {"ret": 4})
    k.expect_undef("one byte past an alloca", m, "oob", [4], "outside")
    k.expect_undef("one byte before an alloca", m, "oob", [-1], "outside")
    k.expect_obs("u32 at the end of an alloca", m, "oob32", [4], {"ret": 0x01020304})
    k.expect_undef("u32 straddling the end of an alloca", m, "oob32", [5], "outside")
    k.expect_obs("last byte of a global", m, "goob", [3], {"ret": 0x0D})
    k.expect_undef("one byte past a global", m, "goob", [4], "outside")
    k.expect_undef("one byte before a global", m, "goob", [-1], "outside")
    k.expect_obs("store into a global", m, "gstore", [2], {"ret": 0, "globals": {"g4": "0a0b550d"}})
    k.expect_undef("store past a global", m, "gstore", [4], "outside")
    k.expect_undef("load through a pointer to a dead alloca", m, "dangling", [], "outside")
    k.expect_obs("returning an alloca address is address dependent", m, "escape", [], {"ret": "ADDR"})


def _t_globals(k):
    for ptr_bits, ps in ((64, 8), (32, 4)):
        m = k.module("glob%d" % ptr_bits)
        g1 = k.variable(m, "g1", 4, value=b"\x01\x02\x03\x04")
        gp = k.variable(m, "gp", 2 * ps, value=((k.ir.ptr, "g1"), (k.ir.ptr, "inc")))
        gz = k.variable(m, "gz", 4)
        gm = k.variable(m, "gm", 4 + ps, value=(b"\xaa\xbb\xcc\xdd", (k.ir.ptr, "gz")))
        f, (x,), (b,) = k.function(m, "inc", [("x", "i32")], "i32")
        k.ret(b, k.binop(b, x, "+", k.const(b, 1, "i32"), "i32"))
        f, _, (b,) = k.function(m, "f", [], "i32")
        p = k.load(b, gp, "ptr")
        v = k.load(b, k.off(b, p, 1), "u16")  # bytes 02 03 -> 0x0302 = 770
        fp = k.load(b, k.off(b, gp, ps), "ptr")
        r = k.call(b, fp, [k.cast(b, v, "i32")], "i32")  # inc(770) = 771 = 0x0303
        q = k.load(b, k.off(b, gm, 4), "ptr")
        k.store(b, r, q)  # -> gz
        k.store(b, k.const(b, 0x99, "u8"), k.off(b, p, 3))  # g1[3]
        k.ret(b, r)
        k.expect_obs("initialised globals, (ptr, name) references, call through a loaded pointer (ptr%d)" % ptr_bits, m, "f", [], {
            "ret": 771, "trace": [],
            "globals": {"g1": "01020399", "gp": "??" * (2 * ps), "gz": "03030000", "gm": "aabbccdd" + "??" * ps}}, ptr_bits=ptr_bits)
        f, _, (b,) = k.function(m, "addr", [], "u64")
        k.ret(b, k.cast(b, k.load(b, gp, "ptr"), "u64"))
        k.expect_obs("an address as an integer is masked (ptr%d)" % ptr_bits, m, "addr", [], {"ret": "ADDR"}, ptr_bits=ptr_bits)
        f, _, (b,) = k.function(m, "diff", [], "i32")
        d = k.binop(b, k.off(b, k.load(b, k.off(b, gm, 4), "ptr"), 3), "-", gz, "ptr")
        k.ret(b, k.cast(b, d, "i32"))
        k.expect_obs("pointer difference inside one object (ptr%d)" % ptr_bits, m, "diff", [], {"ret": 3}, ptr_bits=ptr_bits)
    # ptr arithmetic is modulo the pointer size
    m = k.module("ptrwrap")
    f, _, (b,) = k.function(m, "f", [], "u64")
    big = k.binop(b, k.const(b, 0xFFFFFFF0, "ptr"), "+", k.const(b, 0x20, "ptr"), "ptr")
    k.ret(b, k.cast(b, big, "u64"))
    k.expect_obs("ptr + on a 32-bit machine wraps", m, "f", [], {"ret": 0x10}, ptr_bits=32)
    k.expect_obs("ptr + on a 64-bit machine does not", m, "f", [], {"ret": 0x100000010}, ptr_bits=64)
    # two calls in one memory
    m = k.module("state")
    cnt = k.variable(m, "cnt", 4, value=b"\x05\x00\x00\x00")
    f, (d,), (b,) = k.function(m, "bump", [("d", "i32")], "i32")
    nv = k.binop(b, k.load(b, cnt, "i32"), "+", d, "i32")
    k.store(b, nv, cnt)
    k.ret(b, nv)
    k.expect_obs("globals persist across calls of one machine", m, "bump", [2], {"ret": 7, "more": [17, 16], "globals": {"cnt": "10000000"}},
                 calls=[("bump", [10]), ("bump", [-1])])


def _t_copyblob(k):
    m = k.module("copy")
    src = k.variable(m, "src", 8, value=b"\x01\x02\x03\x04\x05\x06\x07\x08")
    dst = k.variable(m, "dst", 8)
    f, (so, do), (b,) = k.function(m, "cp4", [("so", "ptr"), ("do", "ptr")], "i32")
    k.copy(b, k.binop(b, dst, "+", do, "ptr"), k.binop(b, src, "+", so, "ptr"), 4)
    k.ret(b, k.const(b, 0, "i32"))
    f, (so, do), (b,) = k.function(m, "self4", [("so", "ptr"), ("do", "ptr")], "i32")
    k.copy(b, k.binop(b, src, "+", do, "ptr"), k.binop(b, src, "+", so, "ptr"), 4)
    k.ret(b, k.const(b, 0, "i32"))
    f, _, (b,) = k.function(m, "fromstack", [], "i32")
    p = k.alloc(b, 4)
    k.store(b, k.const(b, 0x7788, "u16"), k.off(b, p, 1))
    k.copy(b, k.off(b, dst, 2), p, 4)
    k.ret(b, k.const(b, 0, "i32"))
    k.expect_obs("CopyBlob between globals", m, "cp4", [1, 2], {"globals": {"src": "0102030405060708", "dst": "0000020304050000"}})
    k.expect_obs("CopyBlob of the last bytes", m, "cp4", [4, 4], {"globals": {"src": "0102030405060708", "dst": "0000000005060708"}})
    k.expect_undef("CopyBlob reading past the source", m, "cp4", [5, 0], "outside")
    k.expect_undef("CopyBlob writing past the destination", m, "cp4", [0, 5], "outside")
    k.expect_obs("CopyBlob inside one object, disjoint", m, "self4", [0, 4], {"globals": {"src": "0102030401020304", "dst": "00" * 8}})
    k.expect_undef("CopyBlob overlapping", m, "self4", [0, 2], "overlap")
    k.expect_obs("CopyBlob carries the uninitialised state along", m, "fromstack", [], {"globals": {"src": "0102030405060708", "dst": "0000??8877??0000"}})


def _t_calls(k):
    ir = k.ir
    m = k.module("calls")
    f, (n,), (entry, rec, base) = k.function(m, "fib", [("n", "i32")], "i32", "entry", "rec", "base")
    two = k.const(entry, 2, "i32")
    k.cjump(entry, n, "<", two, base, rec)
    k.ret(base, n)
    one = k.const(rec, 1, "i32")
    x = k.call(rec, f, [k.binop(rec, n, "-", one, "i32")], "i32")
    y = k.call(rec, f, [k.binop(rec, n, "-", two, "i32")], "i32")
    k.ret(rec, k.binop(rec, x, "+", y, "i32"))
    f, (n,), (entry, rec, base) = k.function(m, "fact", [("n", "u64")], "u64", "entry", "rec", "base")
    one = k.const(entry, 1, "u64")
    k.cjump(entry, n, "<=", one, base, rec)
    k.ret(base, one)
    k.ret(rec, k.binop(rec, n, "*", k.call(rec, f, [k.binop(rec, n, "-", one, "u64")], "u64"), "u64"))
    f, (n,), (entry,) = k.function(m, "forever", [("n", "i32")], "i32")
    k.ret(entry, k.call(entry, f, [n], "i32"))
    k.expect_obs("fib(10)", m, "fib", [10], {"ret": 55, "trace": []})
    k.expect_obs("fib(1)", m, "fib", [1], {"ret": 1})
    k.expect_obs("fact(5)", m, "fact", [5], {"ret": 120})
    k.expect_obs("fact(20)", m, "fact", [20], {"ret": 2432902008176640000})
    k.expect_obs("fact(21) wraps in u64", m, "fact", [21], {"ret": 14197454024290336768})
    k.expect_undef("unbounded recursion", m, "forever", [1], "recursion")
    k.expect_undef("fib(20) needs more than 20000 steps", m, "fib", [20], "fuel")
    # external calls: order, arguments, results
    m = k.module("ext")
    e1 = ir.ExternalFunction("e1", [k.T["i32"], k.T["i32"]], k.T["i32"])
    p1 = ir.ExternalProcedure("p1", [k.T["i64"]])
    e8 = ir.ExternalFunction("e8", [k.T["u8"]], k.T["i8"])
    ef = ir.ExternalFunction("ef", [k.T["f64"]], k.T["f64"])
    for e in (e1, p1, e8, ef):
        m.add_external(e)
    f, (a,), (b,) = k.function(m, "f", [("a", "i32")], "i32")
    k.pcall(b, p1, [k.const(b, 7, "i64")])
    r = k.call(b, e1, [k.const(b, 3, "i32"), a], "i32")
    k.pcall(b, p1, [k.cast(b, k.binop(b, r, "+", k.const(b, 1, "i32"), "i32"), "i64")])
    r2 = k.call(b, e1, [a, r], "i32")
    k.ret(b, k.binop(b, r2, "-", r, "i32"))

    def model(name, args, index, rty):
        return 100 + index

    k.expect_obs("external call trace", m, "f", [-4], {"ret": 2, "trace": [["p1", [7]], ["e1", [3, -4]], ["p1", [102]], ["e1", [-4, 101]]]}, ext=model)
    f, _, (b,) = k.function(m, "g", [], "i8")
    k.ret(b, k.call(b, e8, [k.const(b, 250, "u8")], "i8"))
    k.expect_obs("external result is reduced to the return type", m, "g", [], {"ret": -56, "trace": [["e8", [250]]]}, ext=lambda n, a, i, t: 200)
    f, _, (b,) = k.function(m, "h", [], "f64")
    k.ret(b, k.call(b, ef, [k.const(b, 0.5, "f64")], "f64"))
    k.expect_obs("external float result", m, "h", [], {"ret": "f:4008000000000000", "trace": [["ef", ["f:3fe0000000000000"]]]}, ext=lambda n, a, i, t: 3)
    # the default model: deterministic, small, non-negative
    o1 = k.observe("default external model", m, "f", [5])
    o2 = k.observe("default external model", m, "f", [5])
    k.expect("default external model is deterministic", o1, o2)
    if o1:
        k.expect("default external model: trace shape", [t[0] for t in o1["trace"]], ["p1", "e1", "p1", "e1"])
        k.expect("default external model: first arguments", o1["trace"][:2], [["p1", [7]], ["e1", [3, 5]]])
        r = o1["trace"][3][1][1]
        k.expect("default external model: value range", isinstance(r, int) and 0 <= r <= 127, True)
        k.expect("default external model: value is passed on", o1["trace"][2][1], [r + 1])
    # signature mismatches are undefined
    m = k.module("sig")
    f, (x,), (b,) = k.function(m, "callee", [("x", "i32")], "i32")
    k.ret(b, x)
    g, _, (b,) = k.function(m, "proc", [], None)
    k.exit(b)
    f2, _, (b,) = k.function(m, "wrongty", [], "i32")
    k.ret(b, k.call(b, f, [k.const(b, 1, "i64")], "i32"))
    f3, _, (b,) = k.function(m, "wrongn", [], "i32")
    k.ret(b, k.call(b, f, [], "i32"))
    f4, _, (b,) = k.function(m, "wrongret", [], "i64")
    k.ret(b, k.call(b, f, [k.const(b, 1, "i32")], "i64"))
    f5, _, (b,) = k.function(m, "procres", [], "i32")
    k.ret(b, k.call(b, g, [], "i32"))
    f6, _, (b,) = k.function(m, "notfn", [], "i32")
    k.ret(b, k.call(b, k.const(b, 0x1234, "ptr"), [], "i32"))
    f7, _, (b,) = k.function(m, "okproc", [], "i32")
    k.pcall(b, g, [])
    k.ret(b, k.call(b, f, [k.const(b, 9, "i32")], "i32"))
    k.expect_undef("argument type mismatch", m, "wrongty", [], "signature")
    k.expect_undef("argument count mismatch", m, "wrongn", [], "signature")
    k.expect_undef("return type mismatch", m, "wrongret", [], "return type")
    k.expect_undef("function call to a procedure", m, "procres", [], "return type")
    k.expect_undef("call through a non-function pointer", m, "notfn", [], "not a function")
    k.expect_obs("procedure call then function call", m, "okproc", [], {"ret": 9})
    # arguments are normalised to the parameter type on entry
    k.expect_obs("entry argument normalised", m, "callee", [0x1_0000_0005], {"ret": 5})


def _t_undefined(k):
    m = k.module("undef")
    f, _, (b,) = k.function(m, "use", [], "i32")
    u = k.undefined(b, "i32")
    k.ret(b, k.binop(b, u, "+", k.const(b, 1, "i32"), "i32"))
    f, _, (b,) = k.function(m, "retu", [], "i32")
    k.ret(b, k.undefined(b, "i32"))
    f, _, (b,) = k.function(m, "storeu", [], "i32")
    k.store(b, k.undefined(b, "i32"), k.alloc(b, 4))
    k.ret(b, k.const(b, 0, "i32"))
    f, _, (b,) = k.function(m, "unused", [], "i32")
    k.undefined(b, "i32")
    k.ret(b, k.const(b, 4, "i32"))
    f, (c, d), (entry, left, right, join, skip, useit) = k.function(m, "viaphi", [("c", "i32"), ("d", "i32")], "i32", "entry", "left", "right", "join", "skip", "useit")
    zero = k.const(entry, 0, "i32")
    k.cjump(entry, c, "==", zero, left, right)
    u = k.undefined(left, "i32")
    k.jump(left, join)
    seven = k.const(right, 7, "i32")
    k.jump(right, join)
    p = k.phi(join, "i32")
    p.set_incoming(left, u)
    p.set_incoming(right, seven)
    k.cjump(join, d, "==", zero, skip, useit)
    k.ret(skip, k.const(skip, 5, "i32"))
    k.ret(useit, k.binop(useit, p, "+", k.const(useit, 1, "i32"), "i32"))
    k.expect_undef("operand is Undefined", m, "use", [], "undefined")
    k.expect_undef("return of Undefined", m, "retu", [], "undefined")
    k.expect_undef("store of Undefined", m, "storeu", [], "undefined")
    k.expect_obs("Undefined never used", m, "unused", [], {"ret": 4})
    k.expect_obs("Undefined through a phi, not used", m, "viaphi", [0, 0], {"ret": 5})
    k.expect_obs("defined through the same phi, used", m, "viaphi", [1, 1], {"ret": 8})
    k.expect_obs("defined through the same phi, not used", m, "viaphi", [1, 0], {"ret": 5})
    k.expect_undef("Undefined through a phi, used", m, "viaphi", [0, 1], "undefined")


def _t_cjump_div(k):
    """Undef raised from inside Machine for scalar operators, and CJump on narrow / unsigned types."""
    m = k.module("misc")
    f, (a, b_), (b,) = k.function(m, "div", [("a", "i32"), ("b", "i32")], "i32")
    k.ret(b, k.binop(b, a, "/", b_, "i32"))
    f, (a, b_), (entry, yes, no) = k.function(m, "ult", [("a", "u8"), ("b", "u8")], "i32", "entry", "yes", "no")
    k.cjump(entry, a, "<", b_, yes, no)
    k.ret(yes, k.const(yes, 1, "i32"))
    k.ret(no, k.const(no, 0, "i32"))
    k.expect_obs("-7 / 2", m, "div", [-7, 2], {"ret": -3})
    k.expect_undef("x / 0 inside a function", m, "div", [1, 0], "zero")
    k.expect_undef("MIN / -1 inside a function", m, "div", [-2147483648, -1], "MIN")
    k.expect_obs("unsigned compare of u8 200 < 100", m, "ult", [200, 100], {"ret": 0})
    k.expect_obs("unsigned compare of u8 100 < 200", m, "ult", [100, 200], {"ret": 1})
    k.expect_obs("u8 argument -56 is 200", m, "ult", [-56, 100], {"ret": 0})
    # a constant that does not fit its type under any reading
    f, _, (b,) = k.function(m, "badconst", [], "i8")
    k.ret(b, k.const(b, 300, "i8"))
    k.expect_undef("constant outside its type", m, "badconst", [], "constant")
    f, _, (b,) = k.function(m, "wrapconst", [], "i8")
    k.ret(b, k.const(b, 255, "i8"))
    k.expect_obs("constant 255 of type i8 reads as -1", m, "wrapconst", [], {"ret": -1})
    # literal data is read-only
    f, _, (b,) = k.function(m, "lit", [], "u16")
    lit = k._add(b, k.ir.LiteralData(b"\x10\x20\x30", k._name("lit")))
    la = k._add(b, k.ir.AddressOf(lit, k._name("la")))
    k.ret(b, k.load(b, k.off(b, la, 1), "u16"))
    k.expect_obs("load from literal data", m, "lit", [], {"ret": 0x3020})
    f, _, (b,) = k.function(m, "litst", [], "i32")
    lit = k._add(b, k.ir.LiteralData(b"\x10\x20\x30", k._name("lit")))
    la = k._add(b, k.ir.AddressOf(lit, k._name("la")))
    k.store(b, k.const(b, 1, "u8"), la)
    k.ret(b, k.const(b, 0, "i32"))
    k.expect_undef("store into literal data", m, "litst", [], "literal")


MODULE_TESTS = [_t_phi_swap, _t_loops, _t_memory, _t_globals, _t_copyblob, _t_calls, _t_undefined, _t_cjump_div]


def check_modules(sem, ir, problems):
    k = _Kit(ir, sem, problems)
    for t in MODULE_TESTS:
        try:
            t(k)
        except (sem.Undef, sem.Unsupported) as e:
            problems.append("module test %s: irsem raises %s(%s) outside an expectation" % (t.__name__, type(e).__name__, e.reason))
        except HarnessError:
            raise
        except Exception as e:  # noqa: BLE001
            import traceback

            problems.append("module test %s: %s: %s\n%s" % (t.__name__, type(e).__name__, e, traceback.format_exc(limit=4)))
    return k.modules, k.checks


# ---------------------------------------------------------------------------
# driver


def _ppci_ir():
    try:
        from ppci import ir
    except ImportError:
        sys.path.insert(0, REPO)
        from ppci import ir
    return ir


def run_all(sem, level="quick", limit=40):
    """Run everything against the interpreter module `sem`.  Returns (summary, problems)."""
    import collections

    if level not in ("quick", "thorough"):
        raise ValueError("level %r" % (level,))
    t0 = time.time()
    ir = _ppci_ir()
    problems = []
    counts = collections.Counter()
    cases = make_cases()
    check_hand_table(sem, ir, cases, problems, counts)
    nmod, nmodchecks = check_modules(sem, ir, problems)
    vectors = Vectors(level)
    tmp = tempfile.mkdtemp(prefix="irsem_selfcheck_")
    try:
        exe = gcc_build(cases, tmp) if shutil.which("gcc") else None
        compare_ops(sem, ir, cases, vectors, exe, problems, counts, limit=limit)
    finally:
        shutil.rmtree(tmp, ignore_errors=True)
    kinds = collections.Counter(c.kind for c in cases)
    summary = {
        "level": level,
        "ok": not problems,
        "gcc": exe is not None,
        "operator_cases": len(cases),
        "cases_by_kind": dict(kinds),
        "operand_vectors": counts["vectors"],
        "gcc_evaluations": counts["gcc"],
        "helper_comparisons": counts["helper"],
        "machine_comparisons": counts["Machine"],
        "undefined_checks": {k[6:]: v for k, v in sorted(counts.items()) if k.startswith("undef:")},
        "hand_table_entries": len(HAND_TABLE),
        "hand_table_comparisons": counts["hand"],
        "hand_modules": nmod,
        "hand_module_expectations": nmodchecks,
        "seconds": round(time.time() - t0, 2),
        "cached": False,
    }
    return summary, problems


_MEMO = {}


def _cache_path(level):
    here = os.path.dirname(os.path.abspath(__file__))
    h = hashlib.blake2b(digest_size=8)
    for name in ("irsem.py", "irsem_selfcheck.py"):
        with open(os.path.join(here, name), "rb") as f:
            h.update(f.read())
    h.update(level.encode())
    return os.path.join(os.path.dirname(here), ".build", "irsem-selfcheck-%s-%s.json" % (level, h.hexdigest()))


def selfcheck(level="quick", use_cache=True):
    """Validate vf/irsem.py on its own.  Returns the summary dict; raises HarnessError on any disagreement.

    A successful result is cached in /verif/.build keyed by hash(irsem.py + this file + level)."""
    if level in _MEMO and use_cache:
        return _MEMO[level]
    cpath = _cache_path(level)
    if use_cache and os.path.exists(cpath):
        try:
            with open(cpath) as f:
                r = json.load(f)
            r["cached"] = True
            _MEMO[level] = r
            return r
        except (ValueError, OSError):
            pass
    from . import irsem

    r, problems = run_all(irsem, level)
    if problems:
        raise HarnessError("vf/irsem.py self-validation failed (%d problem(s)):\n  %s" % (len(problems), "\n  ".join(problems[:8])))
    if r["gcc"]:  # without gcc the operator differential did not happen: do not remember that as a pass
        try:
            os.makedirs(os.path.dirname(cpath), exist_ok=True)
            tmp = "%s.%d.tmp" % (cpath, os.getpid())
            with open(tmp, "w") as f:
                json.dump(r, f)
            os.replace(tmp, cpath)
            for name in os.listdir(os.path.dirname(cpath)):  # results for older versions of the two files
                if name.startswith("irsem-selfcheck-%s-" % level) and name.endswith(".json") and name != os.path.basename(cpath):
                    os.unlink(os.path.join(os.path.dirname(cpath), name))
        except OSError:
            pass
    _MEMO[level] = r
    return r


def _main(argv):
    level, path, cache = "quick", None, False
    it = iter(argv)
    for a in it:
        if a == "--irsem":
            path = next(it)
        elif a == "--cache":
            cache = True
        else:
            level = a
    if path:
        import importlib.util

        spec = importlib.util.spec_from_file_location("irsem_under_test", path)
        sem = importlib.util.module_from_spec(spec)
        spec.loader.exec_module(sem)
        r, problems = run_all(sem, level)
        print(json.dumps(r, indent=1))
        for p in problems:
            print("PROBLEM:", p)
        return 1 if problems else 0
    try:
        print(json.dumps(selfcheck(level, use_cache=cache), indent=1))
    except HarnessError as e:
        print(e)
        return 1
    return 0


if __name__ == "__main__":
    sys.exit(_main(sys.argv[1:]))
