#!/bin/bash
# Offline setup: hypothesis into /venv (no-op when present); pre-build helper binaries.
cd "$(dirname "${BASH_SOURCE[0]}")" || exit 1
/venv/bin/python -c "import hypothesis" 2>/dev/null || \
  /venv/bin/pip install --no-index --find-links /opt/veriftools/wheels hypothesis
/venv/bin/python -c "import hypothesis; print('hypothesis', hypothesis.__version__)" || exit 1
# atheris (coverage-guided fuzz layer of the thorough tiers of C15, C21, C28; vf/fuzz.py).  Optional: without it the
# layer records "atheris unavailable" and the checks run as before.  Used with PYTHONPATH=/verif/.deps (git-ignored).
if [ ! -d /verif/.deps/atheris ]; then
  /venv/bin/pip install --no-index --find-links /opt/veriftools/wheels --target /verif/.deps atheris
fi
if [ -x tools/prebuild.sh ]; then tools/prebuild.sh || exit 1; fi
exit 0
