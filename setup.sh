#!/bin/bash
# Offline setup: hypothesis into /venv (no-op when present); pre-build helper binaries.
cd "$(dirname "${BASH_SOURCE[0]}")" || exit 1
/venv/bin/python -c "import hypothesis" 2>/dev/null || \
  /venv/bin/pip install --no-index --find-links /opt/veriftools/wheels hypothesis
/venv/bin/python -c "import hypothesis; print('hypothesis', hypothesis.__version__)" || exit 1
if [ -x tools/prebuild.sh ]; then tools/prebuild.sh || exit 1; fi
exit 0
