#!/bin/bash
# tools/mutant_sweep.sh C02 C03 ...   run every mutants/CNN/*.diff through tools/mutant.sh; print a table
here="$(cd "$(dirname "${BASH_SOURCE[0]}")/.." && pwd)"
cd "$here"
for pid in "$@"; do
  for m in mutants/$pid/*.diff; do
    [ -f "$m" ] || continue
    out=$(tools/mutant.sh $pid $m 2>&1 | tail -1)
    echo "$pid $(basename $m): ${out##*: }"
  done
done
