#!/bin/bash
# tools/applyfix.sh fixes/X.diff "fix: message"   (lead only) apply to /repo, run tests, commit touched files only
set -e
patch="$(realpath "$1")"; msg="$2"
cd /repo
git apply --check "$patch" 2>/dev/null && git apply "$patch" || patch -p1 -s --no-backup-if-mismatch < "$patch"
files=$(git status --short | grep '^ M' | awk '{print $2}' | grep -v '\.html$')
out=$(/venv/bin/python -m pytest -q -p no:cacheprovider --timeout=900 -x 2>&1 | tail -1)
echo "$out"
rm -f oi.html
case "$out" in *failed*|*error*) echo "TESTS FAILED - reverting"; git checkout -- $files; exit 1;; esac
git add $files
git commit -q -m "$msg"
git log --oneline | head -1
