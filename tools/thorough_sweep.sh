#!/bin/bash
# tools/thorough_sweep.sh <minutes per check> C20 C33 ...   ./check CNN thorough on /repo under a time limit; scratch evidence
here="$(cd "$(dirname "${BASH_SOURCE[0]}")/.." && pwd)"
cd "$here"
lim="$1"; shift
scratch=$(mktemp -d /tmp/vf-thor-XXXXXX); trap 'rm -rf "$scratch"' EXIT
for p in "$@"; do
  t0=$(date +%s)
  out=$(VERIF_EVIDENCE_DIR=$scratch/ev VERIF_VIOLATIONS_DIR=$here/violations timeout ${lim}m ./check $p thorough 2>&1); rc=$?
  echo "$p thorough rc=$rc $(( $(date +%s) - t0 ))s | $(echo "$out" | grep "$p thorough seed" | cut -c1-260)"
  [ $rc -ne 0 ] && echo "$out" | grep -v KNOWN-FINDING | tail -8 | cut -c1-500
done
