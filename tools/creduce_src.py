#!/venv/bin/python
"""tools/creduce_src.py PID case.json 'substring' [out.json]   greedy reducer for cases that carry C text in case["src"]
(C29, C30, ...): deletes brace-balanced line groups and single lines while PID's replay() still fails with a message
containing the substring."""
import json, os, sys
sys.path.insert(0, os.path.dirname(os.path.dirname(os.path.abspath(__file__))))
import logging; logging.disable(logging.WARNING)
import importlib
from vf.core import Discard

pid, path, key = sys.argv[1], sys.argv[2], sys.argv[3]
out = sys.argv[4] if len(sys.argv) > 4 else path.replace(".json", ".min.json")
mod = importlib.import_module("vf.props." + pid.lower())
doc = json.load(open(path))
case = doc["case"] if "case" in doc else doc


def fails(src):
    c = dict(case, src=src)
    try:
        msg = mod.replay(c)
    except Discard:
        return False
    except Exception:
        return False
    return bool(msg) and key in msg


def groups(lines):
    """candidate (start, end) line ranges: single lines and brace-balanced regions starting at a line that opens a brace"""
    res = []
    for i, l in enumerate(lines):
        if l.count("{") > l.count("}"):
            depth = 0
            for j in range(i, len(lines)):
                depth += lines[j].count("{") - lines[j].count("}")
                if depth <= 0:
                    res.append((i, j + 1))
                    break
    res.sort(key=lambda r: r[0] - r[1])
    res += [(i, i + 1) for i in range(len(lines))]
    return res


src = case["src"]
assert fails(src), "case does not fail with that message"
changed = True
while changed:
    changed = False
    lines = src.split("\n")
    for a, b in groups(lines):
        cand = "\n".join(lines[:a] + lines[b:])
        if cand != src and fails(cand):
            src = cand
            changed = True
            print("reduced to %d lines" % len(src.split("\n")), flush=True)
            break
case["src"] = src
json.dump({"property": pid, "case": case}, open(out, "w"), indent=1)
print(src)
