#!/bin/bash
# tools/run_all_quick.sh [ids...]  -- run the quick tier of every registered check sequentially; summary in /tmp/runall.log
cd "$(dirname "${BASH_SOURCE[0]}")/.."
ids="$@"
if [ -z "$ids" ]; then ids=$(/venv/bin/python -c "import json; print(' '.join(c['property_id'] for c in json.load(open('MANIFEST.json'))['checks']))"); fi
for p in $ids; do
  start=$(date +%s)
  out=$(./check $p quick 2>&1 | grep -E "VIOLATION|HARNESS-ERROR|KNOWN-FINDING|$p quick" | cut -c1-220 | tail -6)
  rc=$?
  end=$(date +%s)
  echo "== $p ($((end-start))s)"; echo "$out"
done
