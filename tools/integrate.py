#!/venv/bin/python
"""tools/integrate.py PID [patch-order...]  (lead only): apply the fixed-pending patches of a property to /repo,
one 'fix:' commit each (tests must pass), and flip the findings to fixed with the commit id."""
import json, os, subprocess, sys, textwrap
V = "/verif"
pid = sys.argv[1]
order = sys.argv[2:]
path = "%s/known_findings.d/%s.json" % (V, pid)
F = json.load(open(path))
by_patch = {}
for e in F:
    if e.get("status") == "fixed-pending" and e.get("fix"):
        by_patch.setdefault(e["fix"], []).append(e)
patches = sorted(by_patch, key=lambda p: (order.index(os.path.basename(p)[:-5].split("-", 1)[1]) if os.path.basename(p)[:-5].split("-", 1)[1] in order else 99, p))
for patch in patches:
    es = by_patch[patch]
    what = es[0]["what"].strip()
    subj = "fix: " + what
    if len(subj) > 72:
        subj = subj[:72].rsplit(" ", 1)[0]
    body = "\n\n".join(textwrap.fill(e["what"].strip(), 72) for e in es)
    msg = subj + "\n\n" + body + "\n"
    applied_path = V + "/fixes/APPLIED.json"
    applied = json.load(open(applied_path)) if os.path.exists(applied_path) else {}
    if patch in applied:
        print(patch, "-> already applied as", applied[patch])
        for e in es:
            e["status"] = "fixed"
            e["commit"] = applied[patch]
        json.dump(F, open(path, "w"), indent=1)
        continue
    r = subprocess.run([V + "/tools/applyfix.sh", os.path.join(V, patch), msg], capture_output=True, text=True)
    out = (r.stdout + r.stderr).strip().splitlines()
    print(patch, "->", out[-1] if out else "?")
    if r.returncode != 0:
        print("\n".join(out[-15:]))
        print("STOPPING at", patch)
        break
    commit = out[-1].split()[0]
    applied[patch] = commit
    json.dump(applied, open(applied_path, "w"), indent=1)
    for e in es:
        e["status"] = "fixed"
        e["commit"] = commit
    json.dump(F, open(path, "w"), indent=1)
subprocess.run([V + "/tools/merge_findings.py"])
