"""python3-vt tools/validate.py  -- validate MANIFEST.json and every evidence file against the schemas."""
import glob, json, os, sys
import jsonschema
V = os.path.dirname(os.path.dirname(os.path.abspath(__file__)))
ok = True
def val(path, schema):
    global ok
    try:
        jsonschema.validate(json.load(open(path)), json.load(open(schema)))
    except Exception as e:
        ok = False
        print("INVALID", path, str(e)[:300])
val(os.path.join(V, "MANIFEST.json"), "/root/.vp/MANIFEST.schema.json")
for p in sorted(glob.glob(os.path.join(V, "evidence", "*.json"))):
    val(p, "/root/.vp/EVIDENCE.schema.json")
man = json.load(open(os.path.join(V, "MANIFEST.json")))
ids = [c["property_id"] for c in man["checks"]] + [c["property_id"] for c in man.get("not_applicable", [])]
props = [json.loads(l)["id"] for l in open(os.path.join(V, "properties.jsonl"))]
if sorted(ids) != sorted(props):
    ok = False; print("manifest does not account for every property exactly once")
for c in man["checks"]:
    if not os.path.exists(c["evidence_file"]):
        print("missing evidence", c["evidence_file"]); ok = False
print("OK" if ok else "FAILED"); sys.exit(0 if ok else 1)
