#!/bin/bash
# tools/withpatch.sh patch.diff -- <command...>   run a command with VERIF_REPO = scratch copy of /repo + patch
# tools/withpatch.sh patch.diff --tests            run the repo's test-suite in the patched scratch copy
set -u
patch="$(realpath "$1")"; shift
here="$(cd "$(dirname "${BASH_SOURCE[0]}")/.." && pwd)"
scratch="$(mktemp -d /tmp/vf-wp-XXXXXX)"
trap 'rm -rf "$scratch"' EXIT
rsync -a --exclude .git --exclude '*.html' /repo/ "$scratch/repo/"
( cd "$scratch/repo" && patch -p1 -s < "$patch" ) || { echo "patch failed"; exit 3; }
if [ "$1" = "--tests" ]; then
  cd "$scratch/repo" && PYTHONPATH="$scratch/repo" /venv/bin/python -m pytest -q -p no:cacheprovider --timeout=900 -x 2>&1 | tail -5
  exit ${PIPESTATUS[0]}
fi
shift
cd "$here" && VERIF_REPO="$scratch/repo" VERIF_EVIDENCE_DIR="$scratch/ev" VERIF_VIOLATIONS_DIR="$scratch/viol" "$@"
