#!/venv/bin/python
"""tools/irreduce.py PID case.json 'substring of failure message' [out.json]
Greedy reducer for cases with a genir module description ("module") and "calls": drops calls, functions and
instructions whose result is unused, while PID's run_case still fails with a message containing the substring."""
import copy, json, sys, os
sys.path.insert(0, os.path.dirname(os.path.dirname(os.path.abspath(__file__))))
import logging; logging.disable(logging.WARNING)
import importlib
from vf.core import Discard, HarnessError

pid, path, key = sys.argv[1], sys.argv[2], sys.argv[3]
out = sys.argv[4] if len(sys.argv) > 4 else path.replace(".json", ".min.json")
mod = importlib.import_module("vf.props." + pid.lower())
doc = json.load(open(path))
case = doc["case"] if "case" in doc else doc

def fails(c):
    try:
        msg = mod.run_case(c)[0]
    except (Discard, HarnessError):
        return False
    except Exception:
        return False
    return bool(msg) and key in msg

def uses(ins):
    k = ins[0]
    if k == "phi":
        return list(ins[3].values())
    if k == "call":
        return [ins[3]] + list(ins[4])
    if k in ("const", "alloc", "literal", "undef", "jmp", "exit"):
        return []
    if k == "cjmp":
        return [ins[1], ins[3]]
    return [x for x in ins[1:] if isinstance(x, str)]

def defined(ins):
    return ins[1] if ins[0] in ("const", "binop", "unop", "cast", "alloc", "addr", "literal", "load", "undef", "phi") or (ins[0] == "call" and ins[1]) else None

assert fails(case), "case does not fail with that message"
changed = True
while changed:
    changed = False
    # calls
    for i in range(len(case["calls"]) - 1, -1, -1):
        if len(case["calls"]) == 1:
            break
        c2 = copy.deepcopy(case); del c2["calls"][i]
        if fails(c2):
            case = c2; changed = True; print("calls ->", len(case["calls"]), flush=True)
    # functions not called by anyone
    names = [f["name"] for f in case["module"]["functions"]]
    for fn in reversed(names):
        called = any(c[0] == fn for c in case["calls"]) or any(fn in uses(i) for f in case["module"]["functions"] if f["name"] != fn for b in f["blocks"] for i in b["ins"])
        if not called:
            c2 = copy.deepcopy(case); c2["module"]["functions"] = [f for f in c2["module"]["functions"] if f["name"] != fn]
            if fails(c2):
                case = c2; changed = True; print("functions ->", len(case["module"]["functions"]), flush=True)
    # instructions
    for f in case["module"]["functions"]:
        fi = [g["name"] for g in case["module"]["functions"]].index(f["name"])
        for bi in range(len(f["blocks"]) - 1, -1, -1):
            ii = len(case["module"]["functions"][fi]["blocks"][bi]["ins"]) - 2
            while ii >= 0:
                blk = case["module"]["functions"][fi]["blocks"][bi]["ins"]
                ins = blk[ii]
                d = defined(ins)
                used = d is not None and any(d in uses(j) for b in case["module"]["functions"][fi]["blocks"] for j in b["ins"])
                if ins[0] != "phi" and not used and ins[0] not in ("jmp", "cjmp", "ret", "exit"):
                    c2 = copy.deepcopy(case); del c2["module"]["functions"][fi]["blocks"][bi]["ins"][ii]
                    if fails(c2):
                        case = c2; changed = True
                        print("instructions ->", sum(len(b["ins"]) for g in case["module"]["functions"] for b in g["blocks"]), flush=True)
                ii -= 1
json.dump({"property": pid, "case": case}, open(out, "w"), indent=1)
from vf import genir
from ppci.irutils import print_module
print_module(genir.build(case["module"])); print(case["calls"], case.get("levels"))
