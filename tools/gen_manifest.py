#!/venv/bin/python
"""Regenerate /verif/MANIFEST.json from the property modules (vf/props/cNN.py with REGISTER = True)."""
import importlib, json, os, sys

VERIF = os.path.dirname(os.path.dirname(os.path.abspath(__file__)))
sys.path.insert(0, VERIF)

NOT_BUILT = "check not (yet) built to a sound state in this round; see DESIGN.md section 8"
NA_REASONS = {}
p = os.path.join(VERIF, "tools", "not_applicable.json")
if os.path.exists(p):
    NA_REASONS = json.load(open(p))

props = [json.loads(l) for l in open(os.path.join(VERIF, "properties.jsonl"))]
checks, na = [], []
for pr in props:
    pid = pr["id"]
    try:
        mod = importlib.import_module("vf.props.%s" % pid.lower())
    except ModuleNotFoundError:
        mod = None
    if mod is None or not getattr(mod, "REGISTER", False):
        na.append({"property_id": pid, "reason": NA_REASONS.get(pid, NOT_BUILT)})
        continue
    checks.append({
        "property_id": pid,
        "quick_cmd": "./check %s quick" % pid,
        "thorough_cmd": "./check %s thorough" % pid,
        "evidence_file": "/verif/evidence/%s.json" % pid,
        "replay_cmd_template": "./check %s --replay {path}" % pid,
        "engine": "vf",
        "level_claimed": {
            "category": "exploration",
            "text": mod.LEVEL_TEXT,
            "design_ref": "DESIGN.md section 4, %s" % pid,
        },
        "level_note": "Trusted: " + ", ".join(getattr(mod, "TRUSTED", [])) + ". Assumes: " + ("; ".join(getattr(mod, "ASSUMPTIONS", [])) or "nothing further"),
        "technique": mod.TECHNIQUE,
    })
manifest = {
    "version": 1,
    "setup_cmd": "./setup.sh",
    "hooks": {
        "guard": "PPCI_VERIF",
        "enable": "no hooks: ppci is pure Python and installed editable; checks import /repo's working tree and observe by wrapping functions from the harness",
        "baseline_off_cmd": "cd /repo && /venv/bin/python -m pytest -ra -q -p no:cacheprovider --timeout=900 --continue-on-collection-errors",
        "source_commits": [],
        "add_only": True,
    },
    "engines": [{
        "name": "vf",
        "path": "/verif/vf",
        "serves_properties": [c["property_id"] for c in checks],
        "kind_free_text": "property-based testing: Hypothesis strategies + exhaustive enumeration of small domains, 16 worker processes, explicit reference oracles, shrunk JSON replay files",
    }],
    "checks": checks,
    "not_applicable": na,
    "notes": "All checks: ./check CNN quick|thorough, ./check CNN --replay FILE. Known findings: /verif/known_findings.json. Mutants: /verif/mutants, seeded changes: /verif/seeded.",
}
json.dump(manifest, open(os.path.join(VERIF, "MANIFEST.json"), "w"), indent=1)
print("checks:", len(checks), "not_applicable:", len(na))
