#!/bin/bash
# tools/prebuild.sh -- build the helper binaries of the checks ahead of time into /verif/.build/
# (git-ignored, keyed by a hash of their source; every check also builds what it needs lazily).
# Called by setup.sh.  One line per helper.
cd "$(dirname "${BASH_SOURCE[0]}")/.." || exit 1
export PYTHONPATH="$PWD${PYTHONPATH:+:$PYTHONPATH}"
PY=/venv/bin/python
# C07: x86-64 single-instruction stepper (vf/x86step.c, gcc)
$PY -c "from vf import x86step; print('prebuilt', x86step.build())" || exit 1
# C07: self-check of the ARM A32 emulator (vf/arm32.py; clang, gcc, llvm-mc), cached result; a failure only makes C07 skip ARM
$PY -c "from vf import arm32; r = arm32.selfcheck('quick'); print('arm32 selfcheck ok=%s cached=%s' % (r.get('ok'), r.get('cached')))"
# C01 C02 C24 C38: self-check of the reference IR interpreter (vf/irsem.py against gcc and hand-built modules), cached result;
# non-fatal here: the checks run it themselves and report a disagreement as a harness error
$PY -c "from vf import irsem_selfcheck as s; r = s.selfcheck('quick'); print('irsem selfcheck ok=%s cached=%s seconds=%s' % (r.get('ok'), r.get('cached'), r.get('seconds')))" || echo "irsem selfcheck did not pass (non-fatal here)"
exit 0
