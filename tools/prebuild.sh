#!/bin/bash
# tools/prebuild.sh -- build the helper binaries of the checks ahead of time into /verif/.build/
# (git-ignored, keyed by a hash of their source; every check also builds what it needs lazily).
# Called by setup.sh.  One line per helper.
cd "$(dirname "${BASH_SOURCE[0]}")/.." || exit 1
export PYTHONPATH="$PWD${PYTHONPATH:+:$PYTHONPATH}"
PY=/venv/bin/python
# C07: x86-64 single-instruction stepper (vf/x86step.c, gcc)
$PY -c "from vf import x86step; print('prebuilt', x86step.build())" || exit 1
exit 0
