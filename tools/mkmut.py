#!/venv/bin/python
"""tools/mkmut.py OUT.diff FILE 'old' 'new' [FILE 'old' 'new' ...]  -- build a -p1 mutant patch against /repo."""
import difflib, sys
out = sys.argv[1]
args = sys.argv[2:]
res = []
for i in range(0, len(args), 3):
    f, old, new = args[i:i+3]
    s = open("/repo/" + f).read()
    if s.count(old) != 1:
        sys.exit("pattern occurs %d times in %s" % (s.count(old), f))
    t = s.replace(old, new)
    res += list(difflib.unified_diff(s.splitlines(True), t.splitlines(True), "a/" + f, "b/" + f))
open(out, "w").writelines(res)
print("wrote", out)
