#!/venv/bin/python
"""tools/creduce.py PID case.json 'substring of failure message' [out.json]
Greedy line/block reducer for cases whose 'program.src' is generated C (C01, C04, C05...).
Keeps a candidate when PID's run_case still fails with a message containing the substring."""
import copy, json, sys, os, re
sys.path.insert(0, os.path.dirname(os.path.dirname(os.path.abspath(__file__))))
import logging; logging.disable(logging.WARNING)
import importlib
from vf.core import Discard

pid, path, key = sys.argv[1], sys.argv[2], sys.argv[3]
out = sys.argv[4] if len(sys.argv) > 4 else path.replace(".json", ".min.json")
mod = importlib.import_module("vf.props." + pid.lower())
doc = json.load(open(path))
case = doc["case"] if "case" in doc else doc

def fails(c):
    try:
        msg = mod.run_case(c)[0]
    except Discard:
        return False
    except Exception:
        return False
    return bool(msg) and key in msg

def fix_meta(c):
    # drop tests / funcs / observers that no longer exist in the source
    src = c["program"]["src"]
    names = set(re.findall(r"^[a-z][a-z ]*?\**\s*\b(f\d+)\(", src, re.M))
    obs = [o for o in c["program"]["observers"] if re.search(r"\b%s\(void\)" % o, src)]
    c["program"]["observers"] = obs
    keep = [i for i, f in enumerate(c["program"]["funcs"]) if f["name"] in names]
    remap = {old: new for new, old in enumerate(keep)}
    c["program"]["funcs"] = [c["program"]["funcs"][i] for i in keep]
    c["tests"] = [[remap[t[0]], t[1]] for t in c["tests"] if t[0] in remap]
    return c

assert fails(case), "case does not fail with that message"
# 1. fewer tests
changed = True
while changed and len(case["tests"]) > 1:
    changed = False
    for i in range(len(case["tests"])):
        c2 = copy.deepcopy(case); del c2["tests"][i]
        if fails(c2):
            case = c2; changed = True; print("tests ->", len(case["tests"]), flush=True); break
# 2. lines / blocks
def block_end(lines, i):
    depth = 0
    for j in range(i, len(lines)):
        depth += lines[j].count("{") - lines[j].count("}")
        if depth == 0 and j > i:
            return j
        if depth == 0 and j == i and "{" not in lines[j]:
            return j
    return None
progress = True
while progress:
    progress = False
    lines = case["program"]["src"].split("\n")
    i = len(lines) - 1
    while i >= 0:
        ln = lines[i].strip()
        cand = None
        if ln.endswith("{") and not ln.startswith("} else"):
            j = block_end(lines, i)
            if j is not None:
                # swallow a trailing 'break;' of case blocks
                cand = lines[:i] + lines[j + 1:]
        elif ln.endswith(";") and not ln.startswith("return") and not ln.startswith("extern"):
            cand = lines[:i] + lines[i + 1:]
        if cand is not None:
            c2 = copy.deepcopy(case); c2["program"]["src"] = "\n".join(cand); c2 = fix_meta(c2)
            if c2["tests"] and fails(c2):
                case = c2; lines = cand; progress = True
                print("lines ->", len([l for l in lines if l.strip()]), flush=True)
        i -= 1
json.dump({"property": pid, "case": case}, open(out, "w"), indent=1)
print(case["program"]["src"]); print(case["tests"])
