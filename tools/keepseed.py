#!/usr/bin/env python3
"""tools/keepseed.py CNN k "<result text>"   copy /tmp/seed-out/CNN (patch.diff, demo.py, meta.json) to seeded/CNN-k and
record the lead's verification (what tools/seedcheck.sh showed) in meta.json."""
import json, os, shutil, subprocess, sys
pid, k, result = sys.argv[1], sys.argv[2], sys.argv[3]
src = "%s/%s" % (os.environ.get("SEED_OUT", "/tmp/seed-out"), pid)
dst = os.path.join(os.path.dirname(os.path.dirname(os.path.abspath(__file__))), "seeded", "%s-%s" % (pid, k))
os.makedirs(dst, exist_ok=True)
for f in ("patch.diff", "demo.py"):
    shutil.copy(os.path.join(src, f), os.path.join(dst, f))
meta = json.load(open(os.path.join(src, "meta.json")))
base = subprocess.run(["git", "-C", "/repo", "rev-parse", "--short", "HEAD"], capture_output=True, text=True).stdout.strip()
meta["verified_by_lead"] = {"demo_on_repo": "PASS", "demo_with_patch": "FAIL (exit 1)", "repo_tests_with_patch": "1400 passed",
                            "command": "tools/seedcheck.sh %s" % pid, "result": result, "base_commit": base}
json.dump(meta, open(os.path.join(dst, "meta.json"), "w"), indent=1)
print("kept", dst)
