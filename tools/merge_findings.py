#!/venv/bin/python
"""Merge known_findings.d/*.json into known_findings.json (the file the runner reads)."""
import glob, json, os
V = os.path.dirname(os.path.dirname(os.path.abspath(__file__)))
out = []
for p in sorted(glob.glob(os.path.join(V, "known_findings.d", "*.json"))):
    for e in json.load(open(p)):
        e = dict(e)
        if e.get("status") == "fixed-pending":
            e["status"] = "open"
            e["pending_fix"] = True
        if e["status"] == "fixed":
            e["record"] = "fixed: property=%s %s %s" % (e["property"], e.get("commit", "?"), e["what"])
        else:
            e["record"] = "open: property=%s %s" % (e["property"], e["what"])
        out.append(e)
tmp = os.path.join(V, ".known_findings.json.tmp")
json.dump({"format": "one entry per finding; 'record' is the one-line form; status open entries are matched by the narrow classify() of vf/props/<property>.py; fixed entries suppress nothing", "findings": out}, open(tmp, "w"), indent=1)
os.replace(tmp, os.path.join(V, "known_findings.json"))
print("findings:", len(out), "open:", sum(e["status"] == "open" for e in out))
