#!/venv/bin/python
"""tools/c29_measure.py [N] [--probe]  -- measure which (instruction kind, operator, type, constant-operand?) classes
ppci's C front end emits per target and write them to vf/c29_classes.json (input of C29's generator restriction).

Corpus: N (default 600) vf/gencc units (Hypothesis seeds 1..16, rewritten for ILP32 targets by cgstage.adapt_c) and
every .c file of the repo that ppci compiles stand-alone; each compiled by c_to_ir for each of the five targets and
classified unoptimised and after optimize(level=2) (levels 1, 2 and s run the same pass list).  Modules that use a
value type the target does not support are left out (counted).  With --probe the modules are also sent through
ir_to_object and the exception buckets are printed (not stored).
Run as: setarch -R env PYTHONHASHSEED=0 tools/c29_measure.py
"""
import collections
import glob
import io
import json
import logging
import multiprocessing
import os
import subprocess
import sys

sys.path.insert(0, os.path.join(os.path.dirname(os.path.abspath(__file__)), ".."))
from vf import cgstage, gencc, genir  # noqa: E402

logging.disable(logging.WARNING)
REPO = os.environ.get("VERIF_REPO", "/repo")
PROBE = "--probe" in sys.argv
ARGS = [a for a in sys.argv[1:] if not a.startswith("--")]
N = int(ARGS[0]) if ARGS else 600


def gen_programs(arg):
    seed, n = arg
    from hypothesis import HealthCheck, Phase, given, seed as hseed, settings

    progs = []

    @hseed(seed)
    @settings(max_examples=n, database=None, deadline=None, suppress_health_check=list(HealthCheck), phases=[Phase.generate])
    @given(gencc.programs(gencc.Options()))
    def t(p):
        progs.append(p["src"])

    t()
    return progs


def repo_sources():
    out = []
    for path in sorted(glob.glob(os.path.join(REPO, "**", "*.c"), recursive=True)):
        try:
            out.append((os.path.relpath(path, REPO), open(path, encoding="utf-8", errors="replace").read()))
        except OSError:
            pass
    return out


def work(arg):
    kind, name, src = arg
    from ppci.api import c_to_ir, ir_to_object, optimize
    from ppci.lang.c import COptions

    res = {"classes": {}, "skipped": collections.Counter(), "used": collections.Counter(), "buckets": collections.Counter()}
    for target in cgstage.TARGETS:
        info = cgstage.target_info(target)
        ok = set(info["int_types"]) | set(info["float_types"]) | {"ptr", "blob"}
        cls = res["classes"].setdefault(target, set())
        for level in ("0", "2"):
            try:
                if kind == "gencc":
                    m = c_to_ir(io.StringIO(cgstage.adapt_c(src, target)), target)
                else:
                    co = COptions()
                    co.add_include_path(os.path.dirname(os.path.join(REPO, name)))
                    co.add_include_path(os.path.join(REPO, "librt", "libc", "include"))
                    m = c_to_ir(io.StringIO(src), target, coptions=co)
                optimize(m, level=level)
            except Exception as e:
                res["skipped"]["%s %s: front end/optimizer %s" % (kind, target, type(e).__name__)] += 1
                continue
            bad = cgstage.module_types(m) - ok
            if bad:
                res["skipped"]["%s %s: uses unsupported type %s" % (kind, target, ",".join(sorted(bad)))] += 1
                continue
            res["used"]["%s %s level %s" % (kind, target, level)] += 1
            cls.update(cgstage.module_classes(m))
            if PROBE:
                try:
                    ir_to_object([m], target)
                    res["buckets"]["%s ok" % target] += 1
                except Exception as e:
                    res["buckets"]["%s %s" % (target, cgstage.bucket_text(cgstage.bucket(e)))] += 1
    return res


def selfcheck():
    """desc_classes and module_classes must agree on genir descriptions"""
    from hypothesis import HealthCheck, Phase, given, seed as hseed, settings

    n = [0]

    @hseed(7)
    @settings(max_examples=150, database=None, deadline=None, suppress_health_check=list(HealthCheck), phases=[Phase.generate])
    @given(genir.modules(genir.Profile(undef=True)))
    def t(desc):
        a = cgstage.desc_classes(desc)
        b = cgstage.module_classes(genir.build(desc))
        assert a == b, (sorted(a - b), sorted(b - a))
        n[0] += 1

    t()
    return n[0]


def main():
    print("self-check: desc_classes == module_classes on %d generated modules" % selfcheck())
    with multiprocessing.get_context("fork").Pool(16) as pool:
        progs = [p for ps in pool.map(gen_programs, [(s, (N + 15) // 16) for s in range(1, 17)]) for p in ps]
        jobs = [("gencc", "g%d" % i, p) for i, p in enumerate(progs)] + [("repo", n, s) for n, s in repo_sources()]
        results = pool.map(work, jobs, chunksize=4)
    classes = {t: set() for t in cgstage.TARGETS}
    skipped, used, buckets = collections.Counter(), collections.Counter(), collections.Counter()
    for r in results:
        for t, c in r["classes"].items():
            classes[t] |= c
        skipped.update(r["skipped"])
        used.update(r["used"])
        buckets.update(r["buckets"])
    commit = subprocess.run(["git", "-C", REPO, "rev-parse", "--short", "HEAD"], capture_output=True, text=True).stdout.strip()
    doc = {
        "what": "instruction classes emitted by ppci's C front end (+ optimize level 0 and 2) per target; see tools/c29_measure.py",
        "repo_commit": commit,
        "corpus": {"gencc_units": len(progs), "repo_c_files": len(jobs) - len(progs), "modules_used": dict(sorted(used.items())), "left_out": dict(sorted(skipped.items()))},
        "types": {t: cgstage.target_info(t) for t in cgstage.TARGETS},
        "classes": {t: sorted(classes[t]) for t in cgstage.TARGETS},
    }
    with open(cgstage.CLASSES_FILE, "w") as f:
        json.dump(doc, f, indent=1, sort_keys=True)
        f.write("\n")
    for t in cgstage.TARGETS:
        print(t, len(classes[t]), "classes")
    for k, v in sorted(used.items()):
        print("used", v, k)
    for k, v in sorted(skipped.items()):
        print("left out", v, k)
    for k, v in sorted(buckets.items()):
        print("probe", v, k)


if __name__ == "__main__":
    main()
