#!/venv/bin/python
"""tools/c29_measure.py [N] [--probe]  -- measure which (instruction kind, operator, type, constant-operand?) classes
ppci's C front end emits per target and write them to vf/c29_classes.json (input of C29's generator restriction).

Corpus: N (default 320) vf/gencc units (Hypothesis seeds 1..16, rewritten for ILP32 targets by cgstage.adapt_c; generated
without floats for targets without float registers), every .c file of the repo that ppci compiles stand-alone, and an
enumeration of one-function units (every cast pair, every operator x type x {var,const} operand form, compound
assignment, comparison, memory access, pointer arithmetic, calls); each compiled by c_to_ir for each of the five targets and
classified unoptimised and after optimize(level=2) (levels 1, 2 and s run the same pass list).  Modules that use a
value type the target does not support are left out (counted).  With --probe the modules are also sent through
ir_to_object and the exception buckets are printed (not stored).
Run as: setarch -R env PYTHONHASHSEED=0 tools/c29_measure.py
"""
import collections
import contextlib
import glob
import io
import json
import logging
import multiprocessing
import os
import subprocess
import sys

sys.path.insert(0, os.path.join(os.path.dirname(os.path.abspath(__file__)), ".."))
from vf import cgstage, gencc, genir  # noqa: E402

logging.disable(logging.WARNING)
REPO = os.environ.get("VERIF_REPO", "/repo")
PROBE = "--probe" in sys.argv
ARGS = [a for a in sys.argv[1:] if not a.startswith("--")]
N = int(ARGS[0]) if ARGS else 320


def gen_programs(arg):
    seed, n, floats = arg
    from hypothesis import HealthCheck, Phase, given, seed as hseed, settings

    progs = []

    @hseed(seed)
    @settings(max_examples=n, database=None, deadline=None, suppress_health_check=list(HealthCheck), phases=[Phase.generate])
    @given(gencc.programs(gencc.Options(floats=floats)))
    def t(p):
        progs.append(p["src"])

    t()
    return progs


def repo_sources():
    return [(os.path.relpath(path, REPO), None) for path in sorted(glob.glob(os.path.join(REPO, "**", "*.c"), recursive=True))]


CT = ["char", "signed char", "unsigned char", "short", "unsigned short", "int", "unsigned int", "long", "unsigned long",
      "long long", "unsigned long long", "float", "double"]


def systematic_units():
    """one tiny unit per (operator, type, operand form): what the C front end CAN emit, enumerated rather than sampled"""
    units = []
    for s in CT:
        for d in CT:
            units.append("%s f(%s a) { return (%s)a; }" % (d, s, d))
            units.append("%s g; void f(%s *p) { g = (%s)*p; }" % (d, s, d))
            units.append("%s f(%s a, %s b) { return a + b; }" % (d, s, d))
    for t in CT:
        fl = t in ("float", "double")
        ops = ["+", "-", "*", "/"] + ([] if fl else ["%", "&", "|", "^", "<<", ">>"])
        for op in ops:
            units.append("%s f(%s a, %s b) { return a %s b; }" % (t, t, t, op))
            units.append("%s f(%s a) { return a %s 3; }" % (t, t, op))
            units.append("%s f(%s a) { return 3 %s a; }" % (t, t, op))
            units.append("void f(%s *p, %s b) { *p %s= b; }" % (t, t, op))
            units.append("void f(%s *p) { *p %s= 3; }" % (t, op))
            units.append("%s f(%s a, %s b) { %s x = a; x %s= b; x %s= 5; return x; }" % (t, t, t, t, op, op))
        for op in ["-", "!", "+"] + ([] if fl else ["~"]):
            units.append("%s f(%s a) { return %sa; }" % (t, t, op))
            units.append("void f(%s *p) { *p = %s*p; }" % (t, op))
        for op in ["++", "--"]:
            units.append("%s f(%s a) { a%s; %sa; return a; }" % (t, t, op, op))
            units.append("void f(%s *p) { (*p)%s; }" % (t, op))
        for cd in ["==", "!=", "<", ">", "<=", ">="]:
            units.append("int f(%s a, %s b) { if (a %s b) return 1; return 0; }" % (t, t, cd))
            units.append("int f(%s a) { if (a %s 3) return 1; return 0; }" % (t, cd))
            units.append("int f(%s a) { if (3 %s a) return 1; return 0; }" % (t, cd))
            units.append("int f(%s a, %s b) { return a %s b; }" % (t, t, cd))
            units.append("%s f(%s a, %s b) { while (a %s b) { a = a + 1; } return a; }" % (t, t, t, cd))
        units.append("%s g; %s f(void) { return g; }" % (t, t))
        units.append("%s g; void f(%s a) { g = a; }" % (t, t))
        units.append("%s g; void f(void) { g = 7; }" % t)
        units.append("%s f(%s *p, int i) { return p[i]; }" % (t, t))
        units.append("void f(%s *p, int i, %s v) { p[i] = v; }" % (t, t))
        units.append("%s *f(%s *p, int i) { return p + i; }" % (t, t))
        units.append("%s *f(%s *p) { return p - 2; }" % (t, t))
        units.append("long f(%s *p, %s *q) { return p - q; }" % (t, t))
        units.append("%s h(%s a); %s f(%s a) { return h(a); }" % (t, t, t, t))
        units.append("%s f(%s a, int c) { return c ? a : 2; }" % (t, t))
        units.append("struct S { %s a; %s b; }; struct S g; %s f(struct S *p) { g = *p; return p->b; }" % (t, t, t))
        units.append("int f(%s a) { switch ((int)a) { case 1: return 4; case 2: return 5; default: return 6; } }" % t)
    units.append("int f(int *p, int *q) { if (p == q) return 1; if (p < q) return 2; if (!p) return 3; return 0; }")
    units.append("int h(int); int f(int a) { int (*fp)(int) = h; return fp(a); }")
    units.append("struct S { int a; char b[20]; }; void h(struct S s); void f(struct S *p) { h(*p); }")
    units.append("struct S { int a; char b[20]; }; struct S h(void); int f(void) { struct S s = h(); return s.a; }")
    units.append("char *f(void) { return \"hello\"; }")
    return units


def work(arg):
    kind, name, src = arg[:3]
    from ppci.api import c_to_ir, ir_to_object, optimize
    from ppci.lang.c import COptions

    res = {"classes": {}, "skipped": collections.Counter(), "used": collections.Counter(), "buckets": collections.Counter()}
    for target in cgstage.TARGETS:
        info = cgstage.target_info(target)
        ok = set(info["int_types"]) | set(info["float_types"]) | {"ptr", "blob"}
        cls = res["classes"].setdefault(target, set())
        for level in ("0", "2"):
            try:
                with contextlib.redirect_stdout(io.StringIO()):
                    if kind == "gencc":
                        if not info["float_types"]:
                            src = arg[3]  # the unit generated without floats
                        m = c_to_ir(io.StringIO(cgstage.adapt_c(src, target)), target)
                    elif kind == "systematic":
                        if info["ptr_bits"] == 32 and "long long" in src:
                            continue
                        m = c_to_ir(io.StringIO(src), target)
                    else:
                        co = COptions()
                        co.add_include_path(os.path.join(REPO, "librt", "libc", "include"))
                        with open(os.path.join(REPO, name), encoding="utf-8", errors="replace") as fh:
                            m = c_to_ir(fh, target, coptions=co)
                    optimize(m, level=level)
            except Exception as e:
                res["skipped"]["%s %s: front end/optimizer %s" % (kind, target, type(e).__name__)] += 1
                continue
            bad = cgstage.module_types(m) - ok
            if bad:
                res["skipped"]["%s %s: uses unsupported type %s" % (kind, target, ",".join(sorted(bad)))] += 1
                continue
            res["used"]["%s %s level %s" % (kind, target, level)] += 1
            cls.update(cgstage.module_classes(m))
            if PROBE:
                try:
                    ir_to_object([m], target)
                    res["buckets"]["%s ok" % target] += 1
                except Exception as e:
                    res["buckets"]["%s %s" % (target, cgstage.bucket_text(cgstage.bucket(e)))] += 1
    return res


def selfcheck():
    """desc_classes and module_classes must agree on genir descriptions"""
    from hypothesis import HealthCheck, Phase, given, seed as hseed, settings

    n = [0]

    @hseed(7)
    @settings(max_examples=150, database=None, deadline=None, suppress_health_check=list(HealthCheck), phases=[Phase.generate])
    @given(genir.modules(genir.Profile(undef=True)))
    def t(desc):
        a = cgstage.desc_classes(desc)
        b = cgstage.module_classes(genir.build(desc))
        assert a == b, (sorted(a - b), sorted(b - a))
        n[0] += 1

    t()
    return n[0]


def main():
    print("self-check: desc_classes == module_classes on %d generated modules" % selfcheck())
    with multiprocessing.get_context("fork").Pool(16) as pool:
        progs = [p for ps in pool.map(gen_programs, [(s, (N + 15) // 16, True) for s in range(1, 17)]) for p in ps]
        nofl = [p for ps in pool.map(gen_programs, [(s, (N + 15) // 16, False) for s in range(1, 17)]) for p in ps]
        nofl = (nofl * 2)[: len(progs)]
        syst = systematic_units()
        jobs = [("gencc", "g%d" % i, p, q) for i, (p, q) in enumerate(zip(progs, nofl))] + [("repo", n, s) for n, s in repo_sources()]
        jobs += [("systematic", "s%d" % i, u) for i, u in enumerate(syst)]
        results = pool.map(work, jobs, chunksize=4)
    classes = {t: set() for t in cgstage.TARGETS}
    skipped, used, buckets = collections.Counter(), collections.Counter(), collections.Counter()
    for r in results:
        for t, c in r["classes"].items():
            classes[t] |= c
        skipped.update(r["skipped"])
        used.update(r["used"])
        buckets.update(r["buckets"])
    commit = subprocess.run(["git", "-C", REPO, "rev-parse", "--short", "HEAD"], capture_output=True, text=True).stdout.strip()
    doc = {
        "what": "instruction classes emitted by ppci's C front end (+ optimize level 0 and 2) per target; see tools/c29_measure.py",
        "repo_commit": commit,
        "corpus": {"gencc_units": len(progs), "repo_c_files": len(jobs) - len(progs) - len(syst), "systematic_units": len(syst), "modules_used": dict(sorted(used.items())), "left_out": dict(sorted(skipped.items()))},
        "types": {t: cgstage.target_info(t) for t in cgstage.TARGETS},
        "classes": {t: sorted(classes[t]) for t in cgstage.TARGETS},
    }
    with open(cgstage.CLASSES_FILE, "w") as f:
        json.dump(doc, f, indent=1, sort_keys=True)
        f.write("\n")
    for t in cgstage.TARGETS:
        print(t, len(classes[t]), "classes")
    for k, v in sorted(used.items()):
        print("used", v, k)
    for k, v in sorted(skipped.items()):
        print("left out", v, k)
    for k, v in sorted(buckets.items()):
        print("probe", v, k)


if __name__ == "__main__":
    main()
