#!/bin/bash
# tools/seeded_sweep.sh [CNN-k ...]   run ./check CNN quick against every seeded/CNN-k/patch.diff (expected exit 1)
here="$(cd "$(dirname "${BASH_SOURCE[0]}")/.." && pwd)"
cd "$here"
dirs=("$@"); [ ${#dirs[@]} -eq 0 ] && dirs=($(ls seeded))
for d in "${dirs[@]}"; do
  pid=${d%%-*}
  t0=$(date +%s)
  out=$(tools/mutant.sh $pid seeded/$d/patch.diff 2>&1 | tail -1)
  echo "$d: ${out##*: } ($(( $(date +%s) - t0 )) s)"
done
