import json, glob, os, re, subprocess, sys, textwrap

sys.path.insert(0, "/tmp/dz")
from part_sec2 import *
from part_sec3 import SEC3
from part_sec4 import AB, SEED
from part_sec58 import SEC5, SEC8

V = "/verif"
base = subprocess.run(["git", "-C", V, "show", "011f12b:DESIGN.md"], capture_output=True, text=True, check=True).stdout
lines = base.split("\n")

F = json.load(open(V + "/known_findings.json"))["findings"]
MAN = json.load(open(V + "/MANIFEST.json"))
REGISTERED = {c["property_id"] for c in MAN["checks"]}
PIDS = ["C%02d" % i for i in range(1, 41)]


def commit_of(e):
    return (e.get("commit") or "?").split()[0]


def short(i):
    return i.split("-", 1)[1]


def findings_line(pid):
    es = [e for e in F if e["property"] == pid]
    if not es:
        return "Findings: none."
    fixed = [e for e in es if e["status"] == "fixed"]
    pend = [e for e in es if e["status"] == "open" and e.get("pending_fix")]
    opn = [e for e in es if e["status"] == "open" and not e.get("pending_fix")]
    parts = []
    if fixed:
        bycommit = {}
        for e in fixed:
            bycommit.setdefault(commit_of(e), []).append(short(e["id"]))
        parts.append("fixed in /repo: " + ", ".join("%s (%s)" % ("/".join(v), k) for k, v in bycommit.items()))
    if pend:
        parts.append("open with a validated patch in `fixes/` not yet applied: " + ", ".join(short(e["id"]) for e in pend))
    if opn:
        parts.append("open: " + ", ".join(short(e["id"]) for e in opn))
    return "Findings (%d, section 9): " % len(es) + "; ".join(parts) + "."


def mutant_files(pid):
    d = os.path.join(V, "mutants", pid)
    top = sorted(f for f in os.listdir(d) if f.endswith(".diff")) if os.path.isdir(d) else []
    subs = {}
    if os.path.isdir(d):
        for s in sorted(os.listdir(d)):
            p = os.path.join(d, s)
            if os.path.isdir(p):
                subs[s] = sorted(f for f in os.listdir(p) if f.endswith(".diff"))
    return top, subs


MUT_NOTE = {  # what the builder's notes say about the committed (counted) mutants
    "C06": "all three caught (notes/C06.md)", "C07": "all caught (notes/C07.md)", "C08": "all caught (notes/C08.md)",
    "C09": "all caught (notes/C09.md)", "C10": "all caught (notes/C10.md)", "C37": "all caught at quick (notes/C37.md)",
    "C34": "not recorded; notes/C34.md (written before the folder was reorganised): after the fix `dependencies_two_levels` still applies but is equivalent for the runner, `self_dependency_dropped` stays caught, the mutants of the fixed `tasks.py` were validated by hand (exit 1)",
}


def mutants_line(pid):
    top, subs = mutant_files(pid)
    if not top and not subs:
        return "Mutants: none committed."
    s = "Mutants (section 11): %d counted" % len(top)
    if subs:
        s += "; " + ", ".join("%d under `%s/`" % (len(v), k) for k, v in subs.items())
    s += "; result: " + MUT_NOTE.get(pid, "not recorded")
    return s + "."


SEEDS = {}
for p in sorted(glob.glob(V + "/seeded/*/meta.json")):
    sid = os.path.basename(os.path.dirname(p))
    SEEDS[sid] = json.load(open(p))


def seeded_line(pid):
    out = []
    for sid, m in SEEDS.items():
        if m["property"] == pid:
            r = m["verified_by_lead"]["result"]
            if r.startswith("caught"):
                out.append("%s caught at first run" % sid)
            else:
                out.append("%s missed by the first version, caught after strengthening (section 10)" % sid)
    if not out:
        return "Seeded change: none recorded under `seeded/`."
    return "Seeded change: " + "; ".join(out) + "."


def nb(text):
    return re.sub(r"(?<=\d) (?=\d{3}\b)", "\x00", text)


def fill(text, **kw):
    return textwrap.fill(nb(text), 79, break_long_words=False, break_on_hyphens=False, **kw).replace("\x00", " ")


def wrap_bullet(text):
    text = " ".join(text.split())
    return fill(text, initial_indent="* ", subsequent_indent="  ")


def as_built_block(pid):
    b = [wrap_bullet("**As built.** " + AB[pid])]
    b.append(wrap_bullet(findings_line(pid)))
    b.append(wrap_bullet(mutants_line(pid) + " " + seeded_line(pid)))
    return "\n".join(b)


# ---------------------------------------------------------------------------
# assemble


def find(prefix, start=0):
    for i in range(start, len(lines)):
        if lines[i].startswith(prefix):
            return i
    raise KeyError(prefix)


def next_header(i):
    for j in range(i + 1, len(lines)):
        if lines[j].startswith("### ") or lines[j].startswith("## ") or lines[j].startswith("-----"):
            return j
    return len(lines)


def replace_block(prefix, new):
    global lines
    i = find(prefix)
    j = next_header(i)
    lines = lines[:i] + new.rstrip("\n").split("\n") + [""] + lines[j:]


def append_to_block(prefix, new):
    global lines
    i = find(prefix)
    j = next_header(i)
    k = j
    while k > i and lines[k - 1].strip() == "":
        k -= 1
    lines = lines[:k] + [""] + new.strip("\n").split("\n") + [""] + lines[j:]


# status paragraph: after the title line
i = find("# Verification design")
lines = lines[: i + 1] + STATUS.rstrip("\n").split("\n") + lines[i + 1 :]

replace_block("### 2.1 Layout", SEC21)
replace_block("### 2.2 Contract of every check", SEC22)
append_to_block("### 2.3 Tiers", SEC23_AB)
append_to_block("### 2.4 Reproducibility", SEC24_AB)
append_to_block("### 2.4b Scratch space", SEC24B_AB)
replace_block("### 2.5 Known findings", SEC25)
for k, v in SEC3.items():
    append_to_block("### %s " % k, v)
for pid in PIDS:
    append_to_block("### %s " % pid, as_built_block(pid))

# section 5: replace whole section (header .. separator)
i = find("## 5. What this family")
j = find("-----", i)
lines = lines[:i] + SEC5.rstrip("\n").split("\n") + [""] + lines[j:]

# section 6 / 7: append
i = find("## 6. Validating")
j = find("-----", i)
k = j
while lines[k - 1].strip() == "":
    k -= 1
lines = lines[:k] + [""] + SEC6_AB.strip("\n").split("\n") + [""] + lines[j:]
i = find("## 7. Build order")
j = find("-----", i)
k = j
while lines[k - 1].strip() == "":
    k -= 1
lines = lines[:k] + [""] + SEC7_AB.strip("\n").split("\n") + [""] + lines[j:]

# section 8: replace to end of file
i = find("## 8. Corrections")
lines = lines[:i] + SEC8.rstrip("\n").split("\n") + [""]

# ---------------------------------------------------------------------------
# section 9
SEP = "---------------------------------------------------------------------------"
out = [SEP, "", "## 9. Findings", ""]
nfixed = sum(e["status"] == "fixed" for e in F)
nopen = sum(e["status"] == "open" for e in F)
npend = sum(1 for e in F if e["status"] == "open" and e.get("pending_fix"))
commits = {commit_of(e) for e in F if e["status"] == "fixed"}
log = subprocess.run(["git", "-C", "/repo", "log", "--format=%h %s", "722bf2e..HEAD"], capture_output=True, text=True).stdout.strip().split("\n")
nfixcommits = sum(1 for l in log if l.split(" ", 1)[1].startswith("fix:"))
logids = [l.split()[0] for l in log]
unrec = [l for l in log if l.split()[0] not in commits and l.split(" ", 1)[1].startswith("fix:")]
assert commits <= set(logids), commits - set(logids)
intro = (
    "`known_findings.json` holds %d findings, each entered under the triage rule of 2.5 as a genuine defect of ppci reproduced by hand against the real API "
    "(false alarms are in section 8, not here); %d of them are repaired in /repo by %d `fix:` commits "
    "(`git -C /repo log --oneline 722bf2e..HEAD` lists %d `fix:` commits%s), %d remain open, %d of those with a patch under "
    "`fixes/` that is written and validated but not yet applied. "
    "Several entries record one root cause seen through two properties — C01-F5 = C04-F2 (a67dc84), C02-F3 = C03-F4 = C38-F1 "
    "(5f5567d), C03-F5 = C28-KF9 (0f700fb), C08-KF4 = C09-KF2 (01acdf6), C10-KF6 = C11-KF3/KF4 (0c5b4e5), C15-KF4/KF5 = "
    "C28-KF7/KF8, C22-KF8 = C24-KF5 (d9fb398), C27-KF3/KF4 = C28-KF1/KF2, C28-KF5 = C37-KF2 (78b1952); C08-KF1, C08-KF13 and "
    "C11-KF2 are views of the open C10-KF1/KF2 — so the number of distinct root causes is smaller than the number of entries "
    "(an exact count is not recorded)."
    % (len(F), nfixed, len(commits), nfixcommits,
       "" if not unrec else "; the newest %d — %s — had not yet been recorded against a finding in `known_findings.json` when this section was generated"
       % (len(unrec), "; ".join("%s \"%s\"" % tuple(l.split(" ", 1)) for l in unrec)),
       nopen, npend)
)
out += fill(intro).split("\n")
out += [""] + fill("Status column: `fixed <commit>` = repaired by that `fix:` commit in /repo; `open` = defect present in /repo; "
        "`open, patch pending` = defect present, `fixes/<file>` written and validated, not yet applied. The tables are "
        "generated from `known_findings.json`; the text is the entry's `what`, cut at about 230 characters.").split("\n") + [""]
per = {}
for e in F:
    per.setdefault(e["property"], []).append(e)
cnt_line = []
for pid in PIDS:
    es = per.get(pid, [])
    if es:
        cnt_line.append("%s %d/%d" % (pid, sum(x["status"] == "fixed" for x in es), len(es)))
out += fill("Fixed/total per property: " + ", ".join(cnt_line) + ". No finding: C12, C20, C33.").split("\n")
out.append("")


def cut(s, n=230):
    s = " ".join(s.split()).replace("|", "\\|")
    if len(s) <= n:
        return s
    return s[:n].rsplit(" ", 1)[0] + " …"


for pid in PIDS:
    es = per.get(pid, [])
    if not es:
        continue
    reg = "" if pid in REGISTERED else " (check not registered)"
    out += ["### %s%s" % (pid, reg), "", "| id | finding | status |", "|---|---|---|"]
    for e in es:
        if e["status"] == "fixed":
            st = "fixed %s" % commit_of(e)
        elif e.get("pending_fix"):
            st = "open, patch pending (`%s`)" % e.get("fix", "fixes/?")
        else:
            st = "open"
        out.append("| %s | %s | %s |" % (e["id"], cut(e["what"]), st))
    out.append("")

# ---------------------------------------------------------------------------
# section 10
out += [SEP, "", "## 10. Seeded changes and which checks catch them", ""]
n_first = sum(1 for m in SEEDS.values() if m["verified_by_lead"]["result"].startswith("caught"))
txt = (
    "Breaking changes written independently of the checks, one per directory: a realistic edit of /repo "
    "(`seeded/CNN-k/patch.diff`: a plausible refactoring that violates property CNN only on a narrow class of inputs), a "
    "`demo.py` that passes on /repo and fails with the patch, and `meta.json`. A change was kept only if the repo's own "
    "test-suite still passes with it (all %d kept ones: 1400 passed). The lead verified each with `tools/seedcheck.sh CNN` (demo on "
    "/repo passes, demo with patch fails, repo tests pass, `./check CNN quick` against the patched scratch copy) and recorded "
    "the outcome in `meta.json` (`verified_by_lead.result`). %d of %d were caught by the check as it stood (first run); %d "
    "were missed and led to a stronger generator or oracle, after which they are caught. Properties without a directory "
    "under `seeded/` have no seeded change recorded at the time of writing."
    % (len(SEEDS), n_first, len(SEEDS), len(SEEDS) - n_first)
)
out += fill(txt).split("\n")
out += ["", "| id | what was changed | what it needs to manifest | caught at first run? |", "|---|---|---|---|"]
STRENGTH = {
    "C02-1": "no — the generator's memory idiom stored to `g_obs` between the two stores. Caught after `genir.gen_mem_idiom` gained 'store; load via aliasing pointer / volatile / other type; store' shapes and C02 gained front-end (`gencc` → `c_to_ir`) modules",
    "C03-1": "no — generated tail-recursive functions always forwarded every parameter. Caught after `genir.wrap_tailrec` passes constants for some parameters",
    "C24-1": "no — the reference interpreter discards MIN / −1 as undefined. Caught after C24 gained the weak invariant 'an integer result that is returned lies in the range of its type' for operand pairs the reference leaves undefined",
}
for sid, m in SEEDS.items():
    what, needs = SEED[sid]
    r = m["verified_by_lead"]["result"]
    if r.startswith("caught"):
        res = "yes" + (" (5+ violations)" if "5+" in r else "")
    else:
        assert r.startswith("MISSED"), r
        res = STRENGTH[sid]
    out.append("| %s | %s | %s | %s |" % (sid, what.replace("|", "\\|"), needs.replace("|", "\\|"), res))
out.append("")

# ---------------------------------------------------------------------------
# section 11
out += [SEP, "", "## 11. Sensitivity mutants", ""]
txt = (
    "Per property the committed mutants: small edits of ppci (`-p1` patches against /repo made with `tools/mkmut.py`) that a "
    "reviewer could miss and that the repo's own test-suite does not catch. For every file listed as *counted*, "
    "`tools/mutant.sh CNN mutants/CNN/<file>` — scratch copy of /repo, patch applied, `./check CNN quick` with `VERIF_REPO` pointing at "
    "the copy — **must exit 1**; `tools/mutant_sweep.sh C02 C03 …` runs all `mutants/CNN/*.diff` of the named properties and prints "
    "one `CNN file: exit=N` line each (sub-folders are not swept). Sub-folders hold patches that are kept for the record but "
    "do not count: `killed_by_baseline_tests/` (the check catches them, but so does the repo's test-suite, so they prove "
    "nothing about what the check adds), `equivalent/` (shown not to change behaviour in the property's domain), `stale/` (written "
    "against code that a later `fix:` commit replaced), `not-counted/` (outside the check's domain; see its README). Where the "
    "builder's notes state the sweep result it is repeated here; otherwise the result is not recorded in the repository "
    "(catching every committed mutant is a precondition of registration, HARNESS.md). Mutants from the plan (section 4, "
    "'Sensitivity') that turned out equivalent or are killed by the baseline tests are named in section 8."
)
out += fill(txt).split("\n")
out += ["", "| property | counted (must exit 1) | not counted | recorded result |", "|---|---|---|---|"]
for pid in PIDS:
    top, subs = mutant_files(pid)
    c = ", ".join("`%s`" % f for f in top) or "—"
    nc = "; ".join("%s/: %s" % (k, ", ".join("`%s`" % f for f in v)) for k, v in subs.items()) or "—"
    res = MUT_NOTE.get(pid, "not recorded" if top else "—")
    out.append("| %s | %s | %s | %s |" % (pid, c, nc, res))
out.append("")
tot = sum(len(mutant_files(p)[0]) for p in PIDS)
none = [p for p in PIDS if not mutant_files(p)[0]]
out += fill(
    "%d counted mutants in all at the time of writing. Files named `revert_*` undo a `fix:` commit of /repo: the defect the check once "
    "found must be found again.%s" % (tot, (" No counted mutant is committed for %s; the sensitivity evidence there is the defects the "
    "check found and the seeded changes of section 10." % ", ".join(none)) if none else "")).split("\n")
out.append("")

lines = lines + out
text = "\n".join(lines)
text = re.sub(r"\n{3,}", "\n\n", text)
open(V + "/DESIGN.md", "w").write(text if text.endswith("\n") else text + "\n")
print("written", len(text.split("\n")), "lines")
