#!/usr/bin/env python3
"""tools/design_tables.py   regenerate the generated regions of DESIGN.md (between '<!-- BEGIN name -->' and '<!-- END name -->'):
   seeded-table   from seeded/*/meta.json
   mutants-table  from mutants/CNN/**.diff
   findings-count from known_findings.json"""
import glob, json, os, re, sys
V = os.path.dirname(os.path.dirname(os.path.abspath(__file__)))


def esc(s):
    return str(s).replace("|", "\\|").replace("\n", " ").strip()


def seeded_table():
    rows = ["| id | what was changed | what it needs to manifest | caught at first run? |", "|---|---|---|---|"]
    n = first = 0
    for d in sorted(os.listdir(V + "/seeded")):
        p = os.path.join(V, "seeded", d, "meta.json")
        if not os.path.exists(p):
            continue
        m = json.load(open(p))
        res = m.get("verified_by_lead", {}).get("result", "not recorded")
        n += 1
        if res.startswith("caught"):
            first += 1
            col = "yes"
        else:
            col = "no — " + esc(res)
        rows.append("| %s | %s | %s | %s |" % (d, esc(m.get("summary", ""))[:700], esc(m.get("needs", ""))[:500], col))
    head = "%d seeded changes are kept; %d were caught by the check as it stood when the change arrived, %d were missed at first and are caught after the strengthening named in the last column.\n" % (n, first, n - first)
    return head + "\n" + "\n".join(rows)


def mutants_table():
    rows = ["| property | counted (must exit 1) | not counted |", "|---|---|---|"]
    total = 0
    for pid in ["C%02d" % i for i in range(1, 41)]:
        d = os.path.join(V, "mutants", pid)
        counted = sorted(os.path.basename(f) for f in glob.glob(d + "/*.diff"))
        other = []
        for sub in sorted(glob.glob(d + "/*/")):
            fs = sorted(os.path.basename(f) for f in glob.glob(sub + "*.diff"))
            if fs:
                other.append("%s/: %s" % (os.path.basename(sub.rstrip("/")), ", ".join("`%s`" % f for f in fs)))
        total += len(counted)
        rows.append("| %s | %s | %s |" % (pid, ", ".join("`%s`" % f for f in counted) or "—", "; ".join(other) or "—"))
    return "\n".join(rows) + "\n\n%d counted mutants in all." % total


def findings_count():
    F = json.load(open(V + "/known_findings.json"))["findings"]
    by = {}
    for e in F:
        by.setdefault(e["property"], [0, 0])[0 if e["status"] == "fixed" else 1] += 1
    fixed = sum(v[0] for v in by.values())
    opened = sum(v[1] for v in by.values())
    return "%d findings recorded: %d fixed in /repo by `fix:` commits, %d open (listed in `known_findings.json`, each with a witness that is replayed at the start of every run)." % (fixed + opened, fixed, opened)


GEN = {"seeded-table": seeded_table, "mutants-table": mutants_table, "findings-count": findings_count}
path = V + "/DESIGN.md"
s = open(path).read()
for name, fn in GEN.items():
    pat = re.compile(r"(<!-- BEGIN %s -->\n).*?(<!-- END %s -->)" % (name, name), re.S)
    if pat.search(s):
        s = pat.sub(lambda m: m.group(1) + fn() + "\n" + m.group(2), s)
    else:
        print("marker missing:", name)
open(path, "w").write(s)
