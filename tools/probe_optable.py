#!/venv/bin/python
"""tools/probe_optable.py TARGET...  -> vf/data/optable.json : (kind, type, op) combinations ppci's code generator
cannot compile for a target (measured on the tree at the time of writing; used to keep generated IR inside what a
target supports so that C05 does not waste its budget; C29 judges code generation failures)."""
import json, os, sys
sys.path.insert(0, os.path.dirname(os.path.dirname(os.path.abspath(__file__))))
import logging; logging.disable(logging.WARNING)
from ppci import ir
from ppci.api import ir_to_object, get_arch

def probe(target):
    arch = get_arch(target)
    tys = {t.name: t for t in ir.value_types}
    bad = []
    def ok(build):
        m = ir.Module('m'); build(m)
        try:
            ir_to_object([m], arch); return True
        except Exception:
            return False
    for tn, t in tys.items():
        ops = ["+", "-", "*", "/", "%", "|", "&", "^", "<<", ">>"] if t.is_integer else ["+", "-", "*", "/"]
        for op in ops:
            for constb in (False, True):
                def build(m):
                    f = ir.Function('f', ir.Binding.GLOBAL, t); m.add_function(f)
                    a = ir.Parameter('a', t); b = ir.Parameter('b', t); f.add_parameter(a); f.add_parameter(b)
                    blk = ir.Block('e'); f.add_block(blk); f.entry = blk
                    bb = b
                    if constb:
                        bb = ir.Const(3 if t.is_integer else 3.0, 'c', t); blk.add_instruction(bb)
                    r = ir.Binop(a, op, bb, 'r', t); blk.add_instruction(r); blk.add_instruction(ir.Return(r))
                if not ok(build) and ["binop", tn, op] not in bad:
                    bad.append(["binop", tn, op])
        for op in (["-", "~"] if t.is_integer else ["-"]):
            def build(m):
                f = ir.Function('f', ir.Binding.GLOBAL, t); m.add_function(f)
                a = ir.Parameter('a', t); f.add_parameter(a)
                blk = ir.Block('e'); f.add_block(blk); f.entry = blk
                r = ir.Unop(op, a, 'r', t); blk.add_instruction(r); blk.add_instruction(ir.Return(r))
            if not ok(build):
                bad.append(["unop", tn, op])
        for dn, d in tys.items():
            def build(m):
                f = ir.Function('f', ir.Binding.GLOBAL, d); m.add_function(f)
                a = ir.Parameter('a', t); f.add_parameter(a)
                blk = ir.Block('e'); f.add_block(blk); f.entry = blk
                r = ir.Cast(a, 'r', d); blk.add_instruction(r); blk.add_instruction(ir.Return(r))
            if not ok(build):
                bad.append(["cast", tn, dn])
        for cond in ["==", "<"]:
            def build(m):
                f = ir.Function('f', ir.Binding.GLOBAL, ir.i32); m.add_function(f)
                a = ir.Parameter('a', t); b = ir.Parameter('b', t); f.add_parameter(a); f.add_parameter(b)
                blk = ir.Block('e'); b1 = ir.Block('y'); b2 = ir.Block('n')
                for x in (blk, b1, b2): f.add_block(x)
                f.entry = blk
                blk.add_instruction(ir.CJump(a, cond, b, b1, b2))
                c1 = ir.Const(1, 'c1', ir.i32); b1.add_instruction(c1); b1.add_instruction(ir.Return(c1))
                c2 = ir.Const(2, 'c2', ir.i32); b2.add_instruction(c2); b2.add_instruction(ir.Return(c2))
            if not ok(build) and ["cjmp", tn, "*"] not in bad:
                bad.append(["cjmp", tn, "*"])
        def build(m):
            f = ir.Function('f', ir.Binding.GLOBAL, t); m.add_function(f)
            p = ir.Parameter('p', ir.ptr); a = ir.Parameter('a', t); f.add_parameter(p); f.add_parameter(a)
            blk = ir.Block('e'); f.add_block(blk); f.entry = blk
            blk.add_instruction(ir.Store(a, p)); r = ir.Load(p, 'r', t); blk.add_instruction(r); blk.add_instruction(ir.Return(r))
        if not ok(build):
            bad.append(["mem", tn, "*"])
    return bad

path = os.path.join(os.path.dirname(os.path.dirname(os.path.abspath(__file__))), "vf", "data", "optable.json")
data = json.load(open(path)) if os.path.exists(path) else {}
for target in sys.argv[1:]:
    data[target] = probe(target)
    print(target, len(data[target]), "unsupported combinations")
json.dump(data, open(path, "w"), indent=0)
