#!/bin/bash
# tools/seedcheck.sh CNN [tier]  -- verify a seeded change in /tmp/seed-out/CNN and run ./check CNN against it
pid=$1; tier=${2:-quick}; out=${SEED_OUT:-/tmp/seed-out}/$pid
[ -f $out/patch.diff ] || { echo "no patch"; exit 2; }
echo "== demo on /repo (expect PASS):"; PYTHONPATH=/repo timeout 120 /venv/bin/python $out/demo.py 2>&1 | tail -2; echo "rc=$?"
echo "== demo with patch (expect FAIL):"; /verif/tools/withpatch.sh $out/patch.diff -- bash -c 'PYTHONPATH=$VERIF_REPO timeout 120 /venv/bin/python '$out'/demo.py 2>&1 | tail -2; echo rc=${PIPESTATUS[0]}'
echo "== repo tests with patch:"; /verif/tools/withpatch.sh $out/patch.diff --tests | tail -1
echo "== check $pid $tier with patch:"; /verif/tools/mutant.sh $pid $out/patch.diff $tier 2>&1 | grep -E "VIOLATION|mutant|$pid $tier" | head -5 | cut -c1-300
