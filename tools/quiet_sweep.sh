#!/bin/bash
# tools/quiet_sweep.sh "2 3" C02 C03 ...   ./check CNN quick at each seed on /repo; scratch evidence; one line per run
here="$(cd "$(dirname "${BASH_SOURCE[0]}")/.." && pwd)"
cd "$here"
seeds="$1"; shift
pids=("$@"); [ ${#pids[@]} -eq 0 ] && pids=($(ls vf/props | sed -n 's/^c\([0-9][0-9]\)\.py$/C\1/p'))
scratch=$(mktemp -d /tmp/vf-quiet-XXXXXX); trap 'rm -rf "$scratch"' EXIT
for s in $seeds; do
  for p in "${pids[@]}"; do
    t0=$(date +%s)
    out=$(VERIF_SEED=$s VERIF_EVIDENCE_DIR=$scratch/ev VERIF_VIOLATIONS_DIR=$here/violations ./check $p quick 2>&1); rc=$?
    echo "seed=$s $p rc=$rc $(( $(date +%s) - t0 ))s $(echo "$out" | grep -c '^VIOLATION') violations | $(echo "$out" | grep '^VIOLATION' | head -2 | tr '\n' ' ')"
    [ $rc -ne 0 ] && echo "$out" | grep -v KNOWN-FINDING | tail -6 | cut -c1-400
  done
done
