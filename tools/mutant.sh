#!/bin/bash
# tools/mutant.sh CNN patch.diff [tier]   -> runs ./check CNN against a scratch copy of /repo with the patch applied.
# Expected: exit 1 (the check catches the mutant).  Evidence/violations go to the scratch dir.
set -u
pid="$1"; patch="$(realpath "$2")"; tier="${3:-quick}"
here="$(cd "$(dirname "${BASH_SOURCE[0]}")/.." && pwd)"
scratch="$(mktemp -d /tmp/vf-mut-XXXXXX)"
trap 'rm -rf "$scratch"' EXIT
rsync -a --exclude .git --exclude docs --exclude '*.html' /repo/ "$scratch/repo/"
( cd "$scratch/repo" && patch -p1 -s < "$patch" ) || { echo "patch failed"; exit 3; }
VERIF_REPO="$scratch/repo" VERIF_EVIDENCE_DIR="$scratch/ev" VERIF_VIOLATIONS_DIR="$scratch/viol" "$here/check" "$pid" "$tier"
rc=$?
echo "mutant $(basename "$patch") on $pid: exit=$rc"
exit $rc
